#!/bin/bash
# runs every claimed property's quick (or given tier) check, writes evidence, prints a line each
cd /verif
tier=${1:-quick}
for p in $(python3 -c "import json;print(' '.join(c['property_id'] for c in json.load(open('MANIFEST.json'))['checks']))"); do
  s=$(date +%s); out=$(./vcheck $p $tier 2>&1); rc=$?; e=$(date +%s)
  echo "$p rc=$rc $((e-s))s $(echo "$out" | grep '^SUMMARY' | cut -c1-200)"
  echo "$out" | grep -E "^(VIOLATION|INCONCLUSIVE|KNOWN|BROKEN)" | cut -c1-200 | head -5
done
