package main

import (
	"syscall"
	"os/signal"
	"os/exec"
	"crypto/sha1"
	"encoding/json"
	"flag"
	"fmt"
	"os"
	"path/filepath"
	"runtime"
	"runtime/pprof"
	"runtime/debug"
	"sort"
	"strconv"
	"strings"
	"sync"
	"time"
)

type KnownFinding struct {
	Property string `json:"property"`
	Harness  string `json:"harness"`
	Label    string `json:"label"`
	ID       string `json:"id"`
	What     string `json:"what"`
}

type KnownFile struct {
	Findings []KnownFinding `json:"findings"`
	Fixed    []string       `json:"fixed"`
}

func loadKnown(verifDir string) *KnownFile {
	kf := &KnownFile{}
	b, err := os.ReadFile(filepath.Join(verifDir, "known_findings.json"))
	if err == nil {
		json.Unmarshal(b, kf)
	}
	return kf
}

func main() {
	if len(os.Args) < 2 {
		fmt.Println("usage: gosmt check <PROP> [--tier quick|thorough] [--only regex] | gosmt list <PROP>")
		os.Exit(2)
	}
	cmd := os.Args[1]
	fs := flag.NewFlagSet(cmd, flag.ExitOnError)
	tier := fs.String("tier", getenvDefault("VERIF_TIER", "quick"), "quick|thorough")
	only := fs.String("only", "", "substring filter on harness names")
	repo := fs.String("repo", "/repo", "repository under test")
	verif := fs.String("verif", "/verif", "verification directory")
	workers := fs.Int("workers", runtime.NumCPU(), "solver workers")
	par := fs.Int("par", 12, "harnesses executed in parallel")
	dump := fs.String("dump", "", "dump failing/unknown scripts to this directory")
	verbose := fs.Bool("v", false, "verbose")
	noEvidence := fs.Bool("no-evidence", false, "do not write the evidence file")
	var prop string
	if len(os.Args) > 2 {
		prop = os.Args[2]
		fs.Parse(os.Args[3:])
	}
	seed, _ := strconv.Atoi(getenvDefault("VERIF_SEED", "0"))
	// SIGTERM/SIGINT/SIGHUP (e.g. from `timeout`): do not leave solver processes behind
	sigc := make(chan os.Signal, 1)
	signal.Notify(sigc, syscall.SIGTERM, syscall.SIGINT, syscall.SIGHUP)
	go func() {
		<-sigc
		killAllChildren()
		fmt.Println("BROKEN-CHECK: interrupted by a signal (no verdict)")
		os.Exit(2)
	}()
	debug.SetGCPercent(400)
	// soft heap limit: GOGC=400 trades memory for speed, but never beyond this (thorough tiers of
	// C01/C02 otherwise grow past the machine's memory)
	memLimit := int64(20) << 30
	if v, err := strconv.Atoi(os.Getenv("VERIF_MEM_GB")); err == nil && v > 0 {
		memLimit = int64(v) << 30
	}
	debug.SetMemoryLimit(memLimit)
	if pf := os.Getenv("GOSMT_PROF"); pf != "" {
		f, _ := os.Create(pf)
		pprof.StartCPUProfile(f)
		defer pprof.StopCPUProfile()
	}
	switch cmd {
	case "check":
		rc := check(prop, *tier, *only, *repo, *verif, *workers, *par, seed, *dump, *verbose, *noEvidence)
		if hp := os.Getenv("GOSMT_HEAPPROF"); hp != "" {
			f, _ := os.Create(hp)
			pprof.WriteHeapProfile(f)
			f.Close()
		}
		pprof.StopCPUProfile()
		os.Exit(rc)
	case "replay":
		// gosmt replay <file.json>: run the harness natively (real code, go test -overlay) on the
		// recorded symbol values and print what it did
		os.Exit(replayFile(prop, *repo, *verif))
	case "check-old":
		os.Exit(check(prop, *tier, *only, *repo, *verif, *workers, *par, seed, *dump, *verbose, *noEvidence))
	default:
		fmt.Println("unknown command", cmd)
		os.Exit(2)
	}
}

type obSummary struct {
	Harness string `json:"harness"`
	Label   string `json:"label"`
	Kind    string `json:"kind"`
	Verdict string `json:"verdict"`
	Solver  string `json:"solver"`
	Ms      int64  `json:"ms"`
	Path    string `json:"path,omitempty"`
	Site    string `json:"site,omitempty"`
}

func check(prop, tier, only, repoDir, verifDir string, workers, par, seed int, dump string, verbose, noEvidence bool) int {
	t0 := time.Now()
	// watchdog: a check never hangs; past the wall limit it is reported as broken, not as passed
	limit := 60 * time.Minute
	if tier == "thorough" {
		limit = 5 * time.Hour
	}
	if v, err := strconv.Atoi(os.Getenv("VERIF_MAX_WALL_MIN")); err == nil && v > 0 {
		limit = time.Duration(v) * time.Minute
	}
	go func() {
		time.Sleep(limit)
		fmt.Printf("BROKEN-CHECK: property=%s tier=%s exceeded its wall limit of %v (no verdict)\n", prop, tier, limit)
		killAllChildren()
		os.Exit(2)
	}()
	ws, err := setupWorkspace(repoDir, verifDir, prop)
	if err != nil {
		fmt.Println("setup failed:", err)
		return 2
	}
	defer ws.Cleanup()
	ld, err := loadAll(ws, tier)
	if err != nil {
		fmt.Println("BROKEN-CHECK: cannot load /repo with harnesses:", err)
		writeBrokenEvidence(verifDir, prop, tier, seed, err.Error(), time.Since(t0).Seconds(), noEvidence)
		// a tree that does not compile with the harness is reported, not treated as a violation
		return 2
	}
	kf := loadKnown(verifDir)
	known := map[string]bool{}
	var knownIDs []string
	for _, f := range kf.Findings {
		known[f.ID] = true
		knownIDs = append(knownIDs, f.ID)
	}
	var specs []*HarnessSpec
	for _, hs := range ld.Specs {
		if hs.Prop != prop && prop != "ALL" {
			continue
		}
		if hs.Tier == "thorough" && tier != "thorough" {
			continue
		}
		if only != "" && !strings.Contains(hs.Name, only) {
			continue
		}
		specs = append(specs, hs)
	}
	if len(specs) == 0 {
		fmt.Println("BROKEN-CHECK: no harness found for", prop)
		return 2
	}
	pool := NewPool(workers, seed)
	results := make([]*HarnessResult, len(specs))
	sem := make(chan struct{}, par)
	var wg sync.WaitGroup
	for i, hs := range specs {
		wg.Add(1)
		go func(i int, hs *HarnessSpec) {
			defer wg.Done()
			sem <- struct{}{}
			defer func() { <-sem }()
			defer func() {
				if r := recover(); r != nil {
					buf := make([]byte, 8192)
					n := runtime.Stack(buf, false)
					results[i] = &HarnessResult{Spec: hs, Unsupported: []string{fmt.Sprintf("engine panic: %v\n%s", r, buf[:n])}, Funcs: map[string]int{}}
				}
			}()
			results[i] = runHarness(ld, hs, tier, known, pool, seed)
			if verbose {
				hr := results[i]
				fmt.Printf("  harness %s: runs=%d obligations=%d wall=%dms unsupported=%v\n", hs.Name, hr.Runs, len(hr.Obligations), hr.WallMs, hr.Unsupported)
			}
		}(i, hs)
	}
	wg.Wait()
	close(pool.ch)
	pool.wg.Wait()

	// ---- collate ----
	rp := &Replayer{ws: ws, ld: ld, bins: map[string]string{}, built: map[string]error{}}
	replayDir := filepath.Join(verifDir, "replays", prop)
	var samples []obSummary
	nOb, nDis, nViol, nKnown, nInc, nReach, nReachOK := 0, 0, 0, 0, 0, 0, 0
	nHunt := 0
	distinct := map[string]bool{}
	funcs := map[string]int{}
	stubs := map[string]bool{}
	var inconclusive []string
	var violations []string
	var notes []string
	replays := 0 // solver counterexamples replayed natively
	probes := 0  // native evaluations at probe points for undecided obligations (varies with solver time-outs)
	paths, instrs := 0, 0
	knownSeen := map[string]bool{}
	reachOK := map[string]bool{}
	probeBudget := 40
	for _, hr := range results {
		paths += hr.Runs
		instrs += hr.Instrs
		for k, v := range hr.Funcs {
			funcs[k] += v
		}
		for _, s := range hr.Stubs {
			stubs[s] = true
		}
		for _, n := range hr.Notes {
			notes = appendNote(notes, hr.Spec.Name+": "+n)
		}
		for _, u := range hr.Unsupported {
			nInc++
			msg := fmt.Sprintf("INCONCLUSIVE property=%s harness=%s reason=%s", prop, hr.Spec.Name, u)
			inconclusive = append(inconclusive, msg)
			fmt.Println(msg)
		}
		// a violated label is replayed once per harness (first model that reproduces)
		reproduced := map[string]bool{}
		for _, ob := range hr.Obligations {
			sum := obSummary{Harness: ob.Harness, Label: ob.Label, Kind: ob.Kind, Solver: ob.Solver, Ms: ob.Ms, Path: ob.PathID, Site: ob.Site}
			if ob.Kind == "reach" {
				nReach++
				if ob.Result == "sat" {
					nReachOK++
					sum.Verdict = "reachable"
					reachOK[ob.Harness+"|"+ob.Label] = true
				} else {
					sum.Verdict = "unreachable-on-this-path(" + ob.Result + ")"
					if _, ok := reachOK[ob.Harness+"|"+ob.Label]; !ok {
						reachOK[ob.Harness+"|"+ob.Label] = false
					}
				}
				if len(samples) < 400 {
					samples = append(samples, sum)
				}
				continue
			}
			if ob.Hunt && ob.Result != "sat" && ob.Result != "unsat" {
				// not counted as an obligation: it can only ever report a counterexample
			} else {
				nOb++
			}
			if ob.Solver != "trivial" {
				if ob.ScriptHash != "" {
					distinct[ob.ScriptHash] = true
				} else {
					h := sha1.Sum([]byte(ob.Script))
					distinct[fmt.Sprintf("%x", h[:8])] = true
				}
			}
			switch ob.Result {
			case "unsat":
				nDis++
				sum.Verdict = "holds"
				if ob.Hunt {
					nHunt++
				}
			case "sat":
				if reproduced[ob.Label] {
					sum.Verdict = "violated(same label already reproduced)"
					break
				}
				ro := rp.Replay(hr.Spec, ob, ld.Specs, tier, knownIDs, replayDir)
				replays++
				ob.Replay = &ro
				if ro.Reproduced {
					reproduced[ob.Label] = true
					kfound := false
					for _, f := range kf.Findings {
						if f.Property == prop && labelMatch(f.Harness, hr.Spec.Name) && labelMatch(f.Label, ob.Label) {
							kfound = true
							nKnown++
							if !knownSeen[f.ID] {
								knownSeen[f.ID] = true
								fmt.Printf("KNOWN-FINDING: property=%s %s [%s/%s] replay=%s\n", prop, f.What, hr.Spec.Name, ob.Label, ro.File)
							}
						}
					}
					if kfound {
						sum.Verdict = "known-finding(reproduced)"
					} else {
						nViol++
						sum.Verdict = "VIOLATED(reproduced)"
						line := fmt.Sprintf("VIOLATION property=%s replay=%s", prop, ro.File)
						violations = append(violations, line)
						fmt.Printf("%s\n  harness=%s label=%s site=%s\n", line, hr.Spec.Name, ob.Label, ob.Site)
						if verbose {
							fmt.Println(indent(ro.Output))
						}
					}
				} else if hitP := probeNatively(rp, hr.Spec, ob, ld.Specs, tier, knownIDs, replayDir, seed, &probeBudget); hitP != nil && !reproduced[ob.Label] {
					// the solver's own model did not reproduce (abstraction / float rounding), but
					// native evaluation at another point satisfying the assumptions does violate it
					reproduced[ob.Label] = true
					replays++
					nViol++
					sum.Verdict = "VIOLATED(solver model not reproducible; violation found by native evaluation at a probe point)"
					line := fmt.Sprintf("VIOLATION property=%s replay=%s", prop, hitP.File)
					violations = append(violations, line)
					fmt.Printf("%s\n  harness=%s label=%s site=%s (solver reported a counterexample that did not replay; native probing found a reproducing one)\n", line, hr.Spec.Name, ob.Label, ob.Site)
				} else {
					nInc++
					sum.Verdict = "inconclusive(model not reproduced: " + ro.Why + ")"
					msg := fmt.Sprintf("INCONCLUSIVE property=%s harness=%s obligation=%s solver model did not reproduce natively (%s) replay=%s", prop, hr.Spec.Name, ob.Label, ro.Why, ro.File)
					inconclusive = append(inconclusive, msg)
					fmt.Println(msg)
				}
			default:
				hit := false
				if len(ob.Vars) > 0 && probeBudget > 0 {
					// last resort for an undecided obligation: native evaluation at pseudo-random
					// points (bug hunting only: a hit is a replayed violation, a miss proves nothing)
					ob.ProbeModels = append(ob.ProbeModels, randomModelsO(ob.Vars, ob.Bounds, ob.Orders, 200, seed+len(ob.Label))...)
					probeBudget--
				}
				if os.Getenv("GOSMT_DEBUG") != "" {
					fmt.Printf("DEBUG probe models for %s: %d\n", ob.Label, len(ob.ProbeModels))
				}
				for _, pm := range ob.ProbeModels {
					if os.Getenv("GOSMT_DEBUG") != "" {
						fmt.Printf("DEBUG   model %v\n", pm)
					}
					ob.Model = pm
					ro := rp.Replay(hr.Spec, ob, ld.Specs, tier, knownIDs, replayDir)
					probes++
					if ro.Reproduced {
						hit = true
						ob.Replay = &ro
						break
					}
				}
				if hit && !reproduced[ob.Label] {
					reproduced[ob.Label] = true
					nViol++
					sum.Verdict = "VIOLATED(solver undecided; found by native evaluation at a solver-chosen point of the path condition)"
					line := fmt.Sprintf("VIOLATION property=%s replay=%s", prop, ob.Replay.File)
					violations = append(violations, line)
					fmt.Printf("%s\n  harness=%s label=%s site=%s (solver undecided; native evaluation at a point satisfying the assumptions)\n", line, hr.Spec.Name, ob.Label, ob.Site)
					break
				}
				if hit {
					sum.Verdict = "violated(same label already reproduced)"
					break
				}
				if ob.Hunt {
					nHunt++
					sum.Verdict = "hunt: no counterexample found (proof by sibling harness)"
					break
				}
				nInc++
				sum.Verdict = "unknown"
				msg := fmt.Sprintf("INCONCLUSIVE property=%s harness=%s obligation=%s solver=unknown/timeout (%d ms)", prop, hr.Spec.Name, ob.Label, ob.Ms)
				inconclusive = append(inconclusive, msg)
				fmt.Println(msg)
			}
			if dump != "" && (ob.Result != "unsat" || os.Getenv("GOSMT_DUMPALL") != "") && ob.Script != "" {
				os.MkdirAll(dump, 0755)
				os.WriteFile(filepath.Join(dump, fmt.Sprintf("%s.%s.%d.smt2", ob.Harness, sanitize(ob.Label), nOb)), []byte(ob.Script), 0644)
			}
			if len(samples) < 400 || ob.Result != "unsat" {
				samples = append(samples, sum)
			}
		}
		if hr.Spec.Expect == "violation" {
			// self-test harnesses are not part of registered checks
		}
	}
	for _, hr := range results {
		if len(hr.Unsupported) > 0 {
			continue
		}
		declared := 0
		for k, ok := range reachOK {
			if strings.HasPrefix(k, hr.Spec.Name+"|") {
				declared++
				if !ok {
					nInc++
					msg := fmt.Sprintf("INCONCLUSIVE property=%s harness=%s vacuity witness %s is unreachable on every path", prop, hr.Spec.Name, strings.TrimPrefix(k, hr.Spec.Name+"|"))
					inconclusive = append(inconclusive, msg)
					fmt.Println(msg)
				}
			}
		}
		if declared == 0 {
			nInc++
			msg := fmt.Sprintf("INCONCLUSIVE property=%s harness=%s has no reachable vacuity witness", prop, hr.Spec.Name)
			inconclusive = append(inconclusive, msg)
			fmt.Println(msg)
		}
	}
	for _, f := range kf.Findings {
		if f.Property == prop && !knownSeen[f.ID] {
			relevant := false
			for _, hr := range results {
				if labelMatch(f.Harness, hr.Spec.Name) {
					relevant = true
				}
			}
			if relevant {
				fmt.Printf("NOTE: known finding %s (%s) was not reproduced on this tree\n", f.ID, f.What)
			}
		}
	}
	wall := time.Since(t0).Seconds()
	fmt.Printf("SUMMARY property=%s tier=%s harnesses=%d paths=%d obligations=%d discharged=%d violations=%d known=%d inconclusive=%d reach=%d/%d queries=%d wall=%.1fs\n",
		prop, tier, len(specs), paths, nOb, nDis, nViol, nKnown, nInc, nReachOK, nReach, pool.Queries+int(globalQueries), wall)

	if !noEvidence {
		var fl []string
		for k, v := range funcs {
			if strings.Contains(k, repoMod) && !strings.Contains(k, "zzverif") && !strings.Contains(k, ".H_") {
				fl = append(fl, fmt.Sprintf("%s x%d", strings.ReplaceAll(k, repoMod+"/", ""), v))
			}
		}
		sort.Strings(fl)
		var sl []string
		for k := range stubs {
			sl = append(sl, k)
		}
		sort.Strings(sl)
		var hl []map[string]interface{}
		for _, hr := range results {
			hl = append(hl, map[string]interface{}{"name": hr.Spec.Name, "doc": strings.TrimSpace(hr.Spec.Doc), "ints": hr.Spec.Cfg.Ints, "floats": hr.Spec.Cfg.Floats,
				"unwind": hr.Spec.Cfg.Unwind, "paths": hr.Runs, "merged_branches": hr.Merges, "forks": hr.Forks, "feasibility_queries": hr.FeasQueries,
				"ssa_instructions": hr.Instrs, "obligations": len(hr.Obligations), "wall_ms": hr.WallMs, "symbols": len(hr.Symbols), "timeout_ms": hr.Spec.Cfg.ObligMs})
		}
		if len(samples) > 60 {
			// keep every non-holding sample plus an even spread of the rest
			var keep []obSummary
			step := len(samples) / 60
			for i, s := range samples {
				if s.Verdict != "holds" && s.Verdict != "reachable" || i%step == 0 {
					keep = append(keep, s)
				}
			}
			samples = keep
		}
		ev := map[string]interface{}{
			"property_id": prop, "tier": tier, "seed": seed, "level": "model_checking",
			"wall_s": wall, "violations": nViol,
			"coverage": map[string]interface{}{
				"states":                        paths,
				"transitions":                   instrs,
				"traces_validated_against_impl": replays,
				"native_probe_evaluations":      probes,
				"obligations":                   nOb,
				"discharged":                    nDis,
				"inconclusive":                  nInc,
				"known_findings_reproduced":     nKnown,
				"bug_hunting_queries_without_counterexample": nHunt,
				"evaluations":                   nOb + nReach,
				"distinct_nontrivial":           len(distinct),
				"rule":                          "one evaluation = one solver obligation (pc ∧ ¬property) or vacuity witness; distinct_nontrivial counts distinct SMT scripts (sha1) that were not decided by constant folding; states = symbolic paths executed; transitions = SSA instructions interpreted",
				"vacuity_witnesses":             fmt.Sprintf("%d/%d reachable", nReachOK, nReach),
				"samples":                       samples,
				"harnesses":                     hl,
				"functions_encoded":             fl,
				"stubs_and_contracts":           sl,
				"solver_queries":                pool.Queries + int(globalQueries),
				"solver_time_s":                 map[string]float64{"pool": sumMap(pool.SolverS), "feasibility": float64(globalSolverNanos) / 1e9},
				"solver_time_by_solver_s":       pool.SolverS,
				"checker_cmd":                   "z3 -in (4.8.12); z3-new -in (5.1.0) on unknown",
				"load_ssa_s":                    ld.LoadS,
				"inconclusive_list":             inconclusive,
				"notes":                         notes,
				"explanation":                   "bounded symbolic execution of go/ssa of the current /repo tree; each obligation decided by an SMT solver for all values within the harness bounds; sat models replayed natively",
			},
			"assumptions": []string{
				"go/packages + go/ssa lowering is the meaning of the source",
				"floats=real harnesses: float64 is modelled as exact reals (rounding, overflow, NaN outside the claim); floats=fp: IEEE-754 binary64 RNE",
				"ints=int harnesses: mathematical integers (no wrap-around; inputs bounded by the harness so that no overflow occurs); ints=bv: 64/32-bit two's complement",
				"math library contracts and environment stubs as listed in coverage.stubs_and_contracts",
				"bounds: see each harness doc string in coverage.harnesses",
			},
		}
		os.MkdirAll(filepath.Join(verifDir, "evidence"), 0755)
		b, _ := json.MarshalIndent(ev, "", " ")
		os.WriteFile(filepath.Join(verifDir, "evidence", prop+".json"), b, 0644)
	}
	if nViol > 0 {
		return 1
	}
	return 0
}

func labelMatch(pat, label string) bool {
	if strings.HasSuffix(pat, "*") {
		return strings.HasPrefix(label, strings.TrimSuffix(pat, "*"))
	}
	return pat == label
}

func sumMap(m map[string]float64) float64 {
	s := 0.0
	for _, v := range m {
		s += v
	}
	return s
}

func sanitize(s string) string {
	var sb strings.Builder
	for _, c := range s {
		if c >= 'a' && c <= 'z' || c >= 'A' && c <= 'Z' || c >= '0' && c <= '9' || c == '-' || c == '_' {
			sb.WriteRune(c)
		} else {
			sb.WriteByte('_')
		}
	}
	return sb.String()
}

func indent(s string) string { return "    " + strings.ReplaceAll(s, "\n", "\n    ") }

func writeBrokenEvidence(verifDir, prop, tier string, seed int, why string, wall float64, skip bool) {
	if skip {
		return
	}
	ev := map[string]interface{}{"property_id": prop, "tier": tier, "seed": seed, "level": "other", "wall_s": wall, "violations": 0,
		"coverage": map[string]interface{}{"explanation": "check could not run: " + why, "evaluations": 0, "distinct_nontrivial": 0}}
	os.MkdirAll(filepath.Join(verifDir, "evidence"), 0755)
	b, _ := json.MarshalIndent(ev, "", " ")
	os.WriteFile(filepath.Join(verifDir, "evidence", prop+".json"), b, 0644)
}

// randomModels: pseudo-random assignments to the harness symbols of an obligation
func randomModels(vars map[string]Sort, n int, seed int) []Model { return randomModelsB(vars, nil, n, seed) }

func randomModelsB(vars map[string]Sort, bounds map[string][2]float64, n int, seed int) []Model {
	return randomModelsO(vars, bounds, nil, n, seed)
}

func randomModelsO(vars map[string]Sort, bounds map[string][2]float64, orders [][2]string, n int, seed int) []Model {
	var names []string
	for v := range vars {
		if strings.HasPrefix(v, "sym:") {
			names = append(names, v)
		}
	}
	sort.Strings(names)
	r := uint64(seed)*6364136223846793005 + 1442695040888963407
	next := func() uint64 { r = r*6364136223846793005 + 1442695040888963407; return r >> 33 }
	mags := []float64{0, 0.001, 0.01, 0.1, 0.25, 0.5, 0.9, 1, 1.5, 2, 3, 5, 10, 30, 100, 400, 1000, 86400}
	var out []Model
	for k := 0; k < n; k++ {
		m := Model{}
		fvals := map[string]float64{}
		prev, havePrev := 0.0, false
		for _, v := range names {
			switch vars[v] {
			case SReal, SFP64, SFP32:
				x := mags[next()%uint64(len(mags))] * (0.5 + float64(next()%1000)/1000.0)
				if next()%8 == 0 {
					x = -x
				}
				if next()%6 == 0 {
					x = mags[next()%uint64(len(mags))]
				}
				if b, ok := bounds[v]; ok && next()%4 != 0 {
					// inside the harness's stated range: uniform, or close to either end
					u := float64(next()%100000) / 100000.0
					switch next() % 4 {
					case 0:
						u = u * u * u
					case 1:
						u = 1 - u*u*u
					}
					x = b[0] + u*(b[1]-b[0])
				}
				if k%3 == 1 {
					// corner mode: degenerate points that random sampling never hits (exact zeros,
					// range ends, two equal symbols)
					b, hasB := bounds[v]
					switch next() % 6 {
					case 0, 1, 2:
						x = 0
						if hasB {
							x = b[0]
						}
					case 3:
						if hasB {
							x = b[1]
						}
					case 4:
						if havePrev {
							x = prev
						}
					}
				}
				prev, havePrev = x, true
				fvals[v] = x
			case SBool:
				m[v] = []string{"true", "false"}[next()%2]
			default:
				x := int64(next() % 7)
				if vars[v].IsBV() {
					m[v] = fmt.Sprintf("(_ bv%d %d)", x, vars[v].Bits())
				} else {
					m[v] = fmt.Sprint(x)
				}
			}
		}
		// repair violated sym <= sym assumptions (two passes: chains of two)
		for pass := 0; pass < 2; pass++ {
			for _, o := range orders {
				x, okx := fvals[o[0]]
				y, oky := fvals[o[1]]
				if okx && oky && x > y {
					lo := 0.0
					if b, ok := bounds[o[0]]; ok {
						lo = b[0]
					}
					if y >= lo {
						u := float64(next()%1000) / 1000.0
						if next()%4 == 0 {
							u = 1
						}
						fvals[o[0]] = lo + u*(y-lo)
					}
				}
			}
		}
		for v, x := range fvals {
			if x < 0 {
				m[v] = fmt.Sprintf("(- %v)", strconv.FormatFloat(-x, 'f', -1, 64))
			} else {
				m[v] = strconv.FormatFloat(x, 'f', -1, 64)
				if !strings.Contains(m[v], ".") {
					m[v] += ".0"
				}
			}
		}
		out = append(out, m)
	}
	return out
}

// probeNatively: evaluate the harness natively at pseudo-random symbol values (the harness's
// own Assume calls filter the points); returns the first reproducing replay.
func probeNatively(rp *Replayer, hs *HarnessSpec, ob *Obligation, all []*HarnessSpec, tier string, known []string, dir string, seed int, budget *int) *ReplayOutcome {
	if *budget <= 0 || len(ob.Vars) == 0 {
		return nil
	}
	*budget--
	saved := ob.Model
	defer func() { ob.Model = saved }()
	for _, pm := range randomModelsO(ob.Vars, ob.Bounds, ob.Orders, 300, seed+len(ob.Label)+7) {
		ob.Model = pm
		ro := rp.Replay(hs, ob, all, tier, known, dir)
		if ro.Reproduced {
			return &ro
		}
	}
	return nil
}


// replayFile: native re-execution of a recorded counterexample against the current tree.
// Exit 1 when the run fails the recorded obligation (assertion failed / panic), 0 when it passes,
// 2 when it cannot be run.
func replayFile(file, repoDir, verifDir string) int {
	b, err := os.ReadFile(file)
	if err != nil {
		fmt.Println("cannot read", file, err)
		return 2
	}
	var rf struct {
		Harness, Label, Tier string
		Env                  []string
	}
	if err := json.Unmarshal(b, &rf); err != nil || rf.Harness == "" {
		fmt.Println("not a replay file:", file)
		return 2
	}
	parts := strings.SplitN(rf.Harness, "_", 3)
	if len(parts) < 3 {
		fmt.Println("cannot derive the property from harness name", rf.Harness)
		return 2
	}
	prop := parts[1]
	tier := rf.Tier
	if tier == "" {
		tier = "quick"
	}
	ws, err := setupWorkspace(repoDir, verifDir, prop)
	if err != nil {
		fmt.Println("setup failed:", err)
		return 2
	}
	defer ws.Cleanup()
	ld, err := loadAll(ws, "thorough")
	if err != nil {
		fmt.Println("BROKEN-CHECK: cannot load the repository with harnesses:", err)
		return 2
	}
	var hs *HarnessSpec
	for _, h := range ld.Specs {
		if h.Name == rf.Harness {
			hs = h
		}
	}
	if hs == nil {
		fmt.Println("no such harness in the current tree:", rf.Harness)
		return 2
	}
	rp := &Replayer{ws: ws, ld: ld, bins: map[string]string{}, built: map[string]error{}}
	bin, err := rp.testBinary(hs, ld.Specs)
	if err != nil {
		fmt.Println(err)
		return 2
	}
	abs, _ := filepath.Abs(file)
	cmd := exec.Command(bin, "-test.run", "^TestVsymReplay$", "-test.v", "-test.timeout", "300s")
	cmd.Dir = filepath.Join(ws.RepoDir, hs.PkgDir)
	cmd.Env = append(os.Environ(), "VSYM_REPLAY="+abs, "VSYM_HARNESS="+hs.Name, "VERIF_TIER="+tier)
	cmd.Env = append(cmd.Env, rf.Env...) // environment of the recorded path (e.g. GOMAXPROCS)
	out, rerr := cmd.CombinedOutput()
	so := string(out)
	fmt.Print(so)
	failed := strings.Contains(so, "VSYM-ASSERT-FAILED "+rf.Label+"\n") || strings.Contains(so, "VSYM-PANIC") || strings.Contains(so, "DATA RACE") || (rerr != nil && (strings.Contains(so, "panic:") || strings.Contains(so, "fatal error:")))
	if strings.Contains(so, "VSYM-ASSUME-FAILED") && !strings.Contains(so, "VSYM-ASSERT-FAILED "+rf.Label+"\n") {
		fmt.Println("REPLAY: the recorded values do not satisfy the harness assumptions natively")
		return 0
	}
	if failed {
		fmt.Printf("REPLAY: obligation %q of %s FAILS on the current tree\n", rf.Label, rf.Harness)
		return 1
	}
	fmt.Printf("REPLAY: obligation %q of %s holds on the current tree for the recorded values\n", rf.Label, rf.Harness)
	return 0
}
