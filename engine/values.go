package main

import (
	"fmt"
	"go/types"
	"strings"

	"golang.org/x/tools/go/ssa"
)

type Value interface{}

type StrV string

// Object: flat vector of slots. Struct and array types are flattened.
type Object struct {
	id    int
	slots []Value
	name  string
	kind  string // "", "global", "cbuf", "rodata"
	cwidth int   // cbuf: byte width of the C element type behind the buffer
	typ   types.Type
	gor   int // goroutine instance that allocated it (0 = main)
}

// Pointer to slot off (+ sym*stride, 0<=sym<count when sym!=nil)
type PtrV struct {
	obj    *Object
	off    int
	sym    *Term
	stride int
	count  int
}

type SliceV struct {
	obj *Object // nil for nil slice
	off int     // slot offset of element 0
	len int
	cap int
	esz int // slots per element
}

type StructV struct{ fields []Value }
type ArrayV struct{ elems []Value }
type TupleV []Value

type IfaceV struct {
	typ types.Type // nil => nil interface
	val Value
}

type ClosureV struct {
	fn      *ssa.Function
	bind    []Value
	builtin string // non-empty for builtins
	// bound method on interface (invoke-mode closures are not needed here)
}

type MapV struct {
	id   int
	keys []string // insertion order
	m    map[string]Value
	kv   map[string]Value // original key values
	nilm bool
}

type ChanV struct {
	id    int
	queue []Value
	vcs   []vclock
	sends int
	recvs int
}

// PoisonV marks a value that could not be merged at decision k; using it aborts the run
// and re-schedules it with decision k forked.
type PoisonV struct{ k int }

type mergeAbort struct{ k int }

func equalValue(a, b Value) bool {
	if a == nil || b == nil {
		return a == nil && b == nil
	}
	switch x := a.(type) {
	case *Term:
		y, ok := b.(*Term)
		return ok && x == y
	case StrV:
		y, ok := b.(StrV)
		return ok && x == y
	case *PtrV:
		y, ok := b.(*PtrV)
		if !ok {
			return false
		}
		if x == nil || y == nil {
			return x == nil && y == nil
		}
		return x.obj == y.obj && x.off == y.off && x.sym == y.sym && x.stride == y.stride && x.count == y.count
	case *SliceV:
		y, ok := b.(*SliceV)
		if !ok {
			return false
		}
		return x.obj == y.obj && x.off == y.off && x.len == y.len && x.cap == y.cap
	case *StructV:
		y, ok := b.(*StructV)
		if !ok || len(x.fields) != len(y.fields) {
			return false
		}
		for i := range x.fields {
			if !equalValue(x.fields[i], y.fields[i]) {
				return false
			}
		}
		return true
	case *ArrayV:
		y, ok := b.(*ArrayV)
		if !ok || len(x.elems) != len(y.elems) {
			return false
		}
		for i := range x.elems {
			if !equalValue(x.elems[i], y.elems[i]) {
				return false
			}
		}
		return true
	case TupleV:
		y, ok := b.(TupleV)
		if !ok || len(x) != len(y) {
			return false
		}
		for i := range x {
			if !equalValue(x[i], y[i]) {
				return false
			}
		}
		return true
	case *IfaceV:
		y, ok := b.(*IfaceV)
		if !ok {
			return false
		}
		if x.typ == nil || y.typ == nil {
			return x.typ == nil && y.typ == nil
		}
		return types.Identical(x.typ, y.typ) && equalValue(x.val, y.val)
	case *ClosureV:
		y, ok := b.(*ClosureV)
		if !ok {
			return false
		}
		if x == nil || y == nil {
			return x == nil && y == nil
		}
		if x.fn != y.fn || x.builtin != y.builtin || len(x.bind) != len(y.bind) {
			return false
		}
		for i := range x.bind {
			if !equalValue(x.bind[i], y.bind[i]) {
				return false
			}
		}
		return true
	case *MapV:
		y, ok := b.(*MapV)
		return ok && x == y
	case *ChanV:
		y, ok := b.(*ChanV)
		return ok && x == y
	case PoisonV:
		return false
	}
	return false
}

func showValue(ts *TermStore, v Value) string {
	switch x := v.(type) {
	case nil:
		return "<nil>"
	case *Term:
		return ts.Show(x, 4)
	case StrV:
		return fmt.Sprintf("%q", string(x))
	case *PtrV:
		if x == nil || x.obj == nil {
			return "nilptr"
		}
		return fmt.Sprintf("&obj%d[%d]", x.obj.id, x.off)
	case *SliceV:
		if x.obj == nil {
			return "nilslice"
		}
		var parts []string
		for i := 0; i < x.len && i < 8; i++ {
			parts = append(parts, showValue(ts, x.obj.slots[x.off+i*x.esz]))
		}
		return fmt.Sprintf("obj%d[%d:+%d]{%s}", x.obj.id, x.off, x.len, strings.Join(parts, ","))
	case *StructV:
		var parts []string
		for _, f := range x.fields {
			parts = append(parts, showValue(ts, f))
		}
		return "{" + strings.Join(parts, ",") + "}"
	case *IfaceV:
		if x.typ == nil {
			return "nil-iface"
		}
		return "iface(" + x.typ.String() + ")"
	case TupleV:
		var parts []string
		for _, f := range x {
			parts = append(parts, showValue(ts, f))
		}
		return "(" + strings.Join(parts, ",") + ")"
	case PoisonV:
		return "poison"
	}
	return fmt.Sprintf("%T", v)
}
