package main

// Persistent solver processes; one query = (reset) + prelude + cone of definitions + asserts.
// Using (reset) rather than push/pop keeps z3's tactic pipeline (nlsat for QF_NRA) available
// while avoiding process start-up per query.

import (
	"bufio"
	"crypto/sha1"
	"fmt"
	"io"
	"math"
	"math/big"
	"os/exec"
	"strconv"
	"strings"
	"sync"
	"sync/atomic"
	"time"
)

type SolverKind struct {
	Name string
	Cmd  []string
}

var (
	KindZ3    = SolverKind{"z3-4.8.12", []string{"z3", "-in", "-memory:6000"}}
	KindZ3New = SolverKind{"z3-5.1.0", []string{"z3-new", "-in", "-memory:6000"}}
	KindCVC5  = SolverKind{"cvc5-1.0", []string{"cvc5", "--incremental", "--lang=smt2", "--produce-models"}}
)

type Solver struct {
	kind    SolverKind
	cmd     *exec.Cmd
	stdin   io.WriteCloser
	out     *bufio.Reader
	lines   chan string
	ts      *TermStore
	seed    int
	Queries int
	Time    time.Duration
	nSat    int
	nUnsat  int
	nUnk    int
	LastScript string
	mu         sync.Mutex
}

var globalQueries int64
var globalSolverNanos int64

func NewSolver(kind SolverKind, ts *TermStore, seed int) *Solver {
	s := &Solver{kind: kind, ts: ts, seed: seed}
	return s
}

func (s *Solver) start() error {
	s.cmd = exec.Command(s.kind.Cmd[0], s.kind.Cmd[1:]...)
	var err error
	s.stdin, err = s.cmd.StdinPipe()
	if err != nil {
		return err
	}
	so, err := s.cmd.StdoutPipe()
	if err != nil {
		return err
	}
	s.cmd.Stderr = nil
	childMu.Lock()
	if stopping {
		childMu.Unlock()
		return fmt.Errorf("engine is stopping")
	}
	if err := s.cmd.Start(); err != nil {
		childMu.Unlock()
		return err
	}
	children[s.cmd] = true
	if len(children) > 256 {
		for k := range children {
			if k.ProcessState != nil {
				delete(children, k)
			}
		}
	}
	childMu.Unlock()
	s.lines = make(chan string, 1024)
	rd := bufio.NewReaderSize(so, 1<<20)
	go func(ch chan string) {
		for {
			l, err := rd.ReadString('\n')
			if l != "" {
				ch <- strings.TrimRight(l, "\r\n")
			}
			if err != nil {
				close(ch)
				return
			}
		}
	}(s.lines)
	return nil
}

func (s *Solver) Close() {
	s.mu.Lock()
	defer s.mu.Unlock()
	if s.cmd != nil {
		s.stdin.Close()
		s.cmd.Process.Kill()
		s.cmd.Wait()
		s.cmd = nil
	}
}

// Kill terminates the process from another goroutine; a CheckScript in flight returns unknown.
func (s *Solver) Kill() {
	s.mu.Lock()
	defer s.mu.Unlock()
	if s.cmd != nil && s.cmd.Process != nil {
		s.cmd.Process.Kill()
	}
}

type Model map[string]string // variable name -> raw SMT value text

// Check decides satisfiability of the conjunction of asserts.
// result: "sat", "unsat", "unknown" (timeouts, errors, anything else)
func (s *Solver) Check(asserts []*Term, wantModel bool, timeoutMs int) (string, Model) {
	for _, a := range asserts {
		if a.IsFalse() {
			return "unsat", nil
		}
	}
	script := s.ts.Script(asserts, nil)
	var vars map[string]Sort
	if wantModel {
		vars = map[string]Sort{}
		ids := map[int]struct{}{}
		for _, a := range asserts {
			for id := range s.ts.VarsOf(a) {
				ids[id] = struct{}{}
			}
		}
		for _, v := range s.ts.vars {
			if _, ok := ids[v.id]; ok {
				vars[v.name] = v.sort
			}
		}
	}
	return s.CheckScript(script, vars, timeoutMs)
}

// CheckScript runs a complete script (declarations, assertions, check-sat); when vars is
// non-nil and the answer is sat the values of those variables are fetched.
type cachedAnswer struct {
	res   string
	model Model
}

var scriptCache sync.Map // sha1(script) -> cachedAnswer (decisive answers only)
var cacheHits int64

func (s *Solver) CheckScript(script string, vars map[string]Sort, timeoutMs int) (string, Model) {
	h := sha1.Sum([]byte(script))
	if v, ok := scriptCache.Load(h); ok {
		ca := v.(cachedAnswer)
		if ca.res == "unsat" || vars == nil || ca.model != nil {
			atomic.AddInt64(&cacheHits, 1)
			return ca.res, ca.model
		}
	}
	res, model := s.checkScript(script, vars, timeoutMs)
	if res != "unknown" {
		scriptCache.Store(h, cachedAnswer{res, model})
	}
	return res, model
}

func (s *Solver) checkScript(script string, vars map[string]Sort, timeoutMs int) (string, Model) {
	t0 := time.Now()
	defer func() {
		d := time.Since(t0)
		s.Time += d
		s.Queries++
		atomic.AddInt64(&globalQueries, 1)
		atomic.AddInt64(&globalSolverNanos, int64(d))
	}()
	if s.cmd == nil {
		if err := s.start(); err != nil {
			return "unknown", nil
		}
	}
	var sb strings.Builder
	sb.WriteString("(reset)\n")
	isZ3 := strings.HasPrefix(s.kind.Name, "z3")
	if isZ3 {
		fmt.Fprintf(&sb, "(set-option :timeout %d)\n(set-option :pp.decimal true)\n(set-option :pp.decimal_precision 30)\n", timeoutMs)
		if s.seed != 0 {
			fmt.Fprintf(&sb, "(set-option :smt.random_seed %d)\n(set-option :sat.random_seed %d)\n", s.seed, s.seed)
		}
	} else {
		fmt.Fprintf(&sb, "(set-option :tlimit-per %d)\n(set-logic ALL)\n", timeoutMs)
	}
	sb.WriteString(script)
	sb.WriteString("(echo \"<<cs>>\")\n")
	s.LastScript = sb.String()
	if _, err := io.WriteString(s.stdin, sb.String()); err != nil {
		s.Close()
		return "unknown", nil
	}
	resp, ok := s.readUntil("<<cs>>", time.Duration(timeoutMs)*time.Millisecond+8*time.Second)
	if !ok {
		s.Close()
		s.nUnk++
		return "unknown", nil
	}
	res := "unknown"
	bad := false
	for _, l := range resp {
		if strings.Contains(l, "(error") {
			bad = true
		}
		switch strings.TrimSpace(l) {
		case "sat":
			res = "sat"
		case "unsat":
			res = "unsat"
		}
	}
	if bad {
		s.nUnk++
		if debugSolver {
			fmt.Println("SOLVER ERROR:", strings.Join(resp, "\n"))
		}
		return "unknown", nil
	}
	switch res {
	case "sat":
		s.nSat++
	case "unsat":
		s.nUnsat++
		return res, nil
	default:
		s.nUnk++
		return res, nil
	}
	if vars == nil {
		return res, nil
	}
	if len(vars) == 0 {
		return res, Model{}
	}
	var q strings.Builder
	q.WriteString("(get-value (")
	for name := range vars {
		q.WriteString(smtSym(name) + " ")
	}
	q.WriteString("))\n(echo \"<<gv>>\")\n")
	if _, err := io.WriteString(s.stdin, q.String()); err != nil {
		s.Close()
		return res, nil
	}
	resp, ok = s.readUntil("<<gv>>", 20*time.Second)
	if !ok {
		s.Close()
		return res, nil
	}
	txt := strings.Join(resp, "\n")
	if strings.Contains(txt, "(error") {
		return res, nil
	}
	sx, err := parseSexp(txt)
	if err != nil || sx.atom != "" {
		return res, nil
	}
	m := Model{}
	for _, pair := range sx.list {
		if len(pair.list) != 2 {
			continue
		}
		name := pair.list[0].String()
		name = strings.Trim(name, "|")
		m[name] = pair.list[1].String()
	}
	return res, m
}

func (s *Solver) readUntil(marker string, d time.Duration) ([]string, bool) {
	var out []string
	timer := time.NewTimer(d)
	defer timer.Stop()
	for {
		select {
		case l, ok := <-s.lines:
			if !ok {
				return out, false
			}
			if strings.Contains(l, marker) {
				return out, true
			}
			out = append(out, l)
		case <-timer.C:
			return out, false
		}
	}
}

var debugSolver = false

// ---- s-expressions ----

type sexp struct {
	atom string
	list []*sexp
}

func (s *sexp) String() string {
	if s.list == nil && s.atom != "" {
		return s.atom
	}
	var parts []string
	for _, x := range s.list {
		parts = append(parts, x.String())
	}
	return "(" + strings.Join(parts, " ") + ")"
}

func parseSexp(txt string) (*sexp, error) {
	pos := 0
	var parse func() (*sexp, error)
	skip := func() {
		for pos < len(txt) && (txt[pos] == ' ' || txt[pos] == '\n' || txt[pos] == '\t' || txt[pos] == '\r') {
			pos++
		}
	}
	parse = func() (*sexp, error) {
		skip()
		if pos >= len(txt) {
			return nil, fmt.Errorf("eof")
		}
		if txt[pos] == '(' {
			pos++
			n := &sexp{list: []*sexp{}}
			for {
				skip()
				if pos >= len(txt) {
					return nil, fmt.Errorf("eof in list")
				}
				if txt[pos] == ')' {
					pos++
					return n, nil
				}
				c, err := parse()
				if err != nil {
					return nil, err
				}
				n.list = append(n.list, c)
			}
		}
		st := pos
		if txt[pos] == '|' {
			pos++
			for pos < len(txt) && txt[pos] != '|' {
				pos++
			}
			pos++
			return &sexp{atom: txt[st:pos]}, nil
		}
		for pos < len(txt) && !strings.ContainsRune(" \n\t\r()", rune(txt[pos])) {
			pos++
		}
		return &sexp{atom: txt[st:pos]}, nil
	}
	return parse()
}

// ---- model value decoding ----

func parseRat(sx *sexp) (*big.Rat, bool) {
	if sx.list == nil {
		a := strings.TrimSuffix(sx.atom, "?")
		r, ok := new(big.Rat).SetString(a)
		return r, ok
	}
	if len(sx.list) == 2 && sx.list[0].atom == "-" {
		r, ok := parseRat(sx.list[1])
		if !ok {
			return nil, false
		}
		return r.Neg(r), true
	}
	if len(sx.list) == 3 && sx.list[0].atom == "/" {
		a, ok1 := parseRat(sx.list[1])
		b, ok2 := parseRat(sx.list[2])
		if !ok1 || !ok2 || b.Sign() == 0 {
			return nil, false
		}
		return a.Quo(a, b), true
	}
	return nil, false
}

// DecodeValue turns a raw SMT value into a Go value: bool, *big.Int (signed), float64
func DecodeValue(raw string, s Sort) (interface{}, bool) {
	sx, err := parseSexp(raw)
	if err != nil {
		return nil, false
	}
	switch {
	case s == SBool:
		return sx.atom == "true", true
	case s == SInt:
		r, ok := parseRat(sx)
		if !ok {
			return nil, false
		}
		return new(big.Int).Quo(r.Num(), r.Denom()), true
	case s.IsBV():
		a := sx.atom
		var v *big.Int
		var ok bool
		if strings.HasPrefix(a, "#x") {
			v, ok = new(big.Int).SetString(a[2:], 16)
		} else if strings.HasPrefix(a, "#b") {
			v, ok = new(big.Int).SetString(a[2:], 2)
		} else if len(sx.list) == 3 && strings.HasPrefix(sx.list[1].atom, "bv") {
			v, ok = new(big.Int).SetString(sx.list[1].atom[2:], 10)
		}
		if !ok {
			return nil, false
		}
		return v, true
	case s == SReal:
		r, ok := parseRat(sx)
		if !ok {
			return nil, false
		}
		f, _ := r.Float64()
		return f, true
	case s.IsFP():
		if len(sx.list) == 4 && sx.list[0].atom == "fp" {
			bits := ""
			for _, p := range sx.list[1:] {
				a := p.atom
				if strings.HasPrefix(a, "#b") {
					bits += a[2:]
				} else if strings.HasPrefix(a, "#x") {
					for _, c := range a[2:] {
						n, _ := strconv.ParseUint(string(c), 16, 8)
						bits += fmt.Sprintf("%04b", n)
					}
				}
			}
			u, err := strconv.ParseUint(bits, 2, 64)
			if err != nil {
				return nil, false
			}
			if s == SFP32 {
				return float64(math.Float32frombits(uint32(u))), true
			}
			return math.Float64frombits(u), true
		}
		if len(sx.list) >= 2 && sx.list[0].atom == "_" {
			switch sx.list[1].atom {
			case "NaN":
				return math.NaN(), true
			case "+oo":
				return math.Inf(1), true
			case "-oo":
				return math.Inf(-1), true
			case "+zero":
				return 0.0, true
			case "-zero":
				return math.Copysign(0, -1), true
			}
		}
	}
	return nil, false
}


// ---- child registry: solver processes are killed when the engine is told to stop ----

var (
	childMu  sync.Mutex
	children = map[*exec.Cmd]bool{}
	stopping bool
)

func killAllChildren() {
	childMu.Lock()
	stopping = true
	for c := range children {
		if c.Process != nil && c.ProcessState == nil {
			c.Process.Kill()
		}
	}
	childMu.Unlock()
}
