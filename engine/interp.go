package main

import (
	"crypto/sha1"
	"fmt"
	"time"
	"go/constant"
	"go/token"
	"go/types"
	"math/big"
	"sort"
	"strings"

	"golang.org/x/tools/go/ssa"
)

type Obligation struct {
	Harness string
	Label   string
	Kind    string // "assert" | "implicit" | "reach"
	Site    string
	Script  string
	Vars    map[string]Sort
	Result  string // filled by pool: unsat/sat/unknown
	Model   Model
	Solver  string
	Ms      int64
	Key     string
	WantSat bool // reach witnesses: sat is good
	PathID  string
	timeoutMs int
	done      chan struct{}
	Replay    *ReplayOutcome
	Script2   string // fallback (toleranced) form, tried when the exact form is not unsat
	Vars2     map[string]Sort
	UsedTol   bool
	Hunt      bool
	Env       []string // environment of the native replay (e.g. GOMAXPROCS chosen on this path)
	ScriptHash string
	Probed     bool
	ProbeModels []Model
	Bounds      map[string][2]float64 // constant bounds on harness symbols found in the assumptions
	Orders [][2]string // pairs (x, y) of symbols with an assumption x <= y
}

type Interp struct {
	prog *ssa.Program
	cfg  Config
	ts   *TermStore
	sol  *Solver
	repoPrefix string

	slotCache map[types.Type]int
	finfo     map[*ssa.Function]*funcInfo
	globals   map[*ssa.Global]*Object
	nextObj   int
	nextMap   int
	journal   []jent

	assumes []*Term // persistent (already guarded)
	guards  []*Term // current arm guards

	forced     map[int]int // decision index -> choice
	forcedSite map[int]string
	taken      map[int]int
	decSite    map[int]string
	cur        ssa.Instruction
	nextDec   int
	pending   []*runSpec // new runs to schedule
	pathID    string

	harness   string
	emit      func(*Obligation)
	symCount  map[string]int
	symbols   map[string]*Term
	reached   map[string]bool
	notes     []string
	stats     struct{ instrs, calls, merges, forks, feas int }
	curGor    int
	boundsCache map[string][2]float64
	ordersCache [][2]string
	boundsAt    int
	boundsLast  *Term
	gorVC     map[int]vclock
	held      map[int]lockset
	nextGor   int
	depth     int

	logOn  bool
	acclog []accEntry

	mathCalls map[string][]mathCall
	funcsSeen map[string]int
	stubs     map[string]bool
	known     map[string]bool
	summaries map[string]bool // function names to summarise as UFs
	initDone  map[*ssa.Package]bool
	chans     int
	fileSys   map[string]Value
	hooks     map[string]func(*Interp, []Value) []Value
	noInit    bool
	lockState map[string]int
	tier      string
	feasCache map[string]bool
	pruneAll  bool
	deferredFacts []string
	pools     map[string][]Value
	replayEnv []string
	trivialN    int
	harnessFn   map[*ssa.Function]bool
	stash       map[string]Value
	stashCount  map[string]int
	mapWrites   []*MapV
	recvTotal   int
	sendTotal   int
	deadline    time.Time
	huntNext    bool
	pendingHunt []int
}

type accEntry struct {
	obj     *Object
	slot    int
	write   bool
	gor     int
	guard   *Term
	spawned int // goroutines started so far (main entries)
	recvd   int // join tokens received so far (main entries)
	site    string
	vc      vclock
	ins     ssa.Instruction
	ls      lockset
}

type mathCall struct{ args []*Term; res *Term }

func NewInterp(prog *ssa.Program, cfg Config, ts *TermStore, sol *Solver) *Interp {
	return &Interp{prog: prog, cfg: cfg, ts: ts, sol: sol,
		slotCache: map[types.Type]int{}, finfo: map[*ssa.Function]*funcInfo{}, globals: map[*ssa.Global]*Object{},
		forced: map[int]int{}, forcedSite: map[int]string{}, taken: map[int]int{}, decSite: map[int]string{}, symCount: map[string]int{}, symbols: map[string]*Term{}, reached: map[string]bool{},
		mathCalls: map[string][]mathCall{}, funcsSeen: map[string]int{}, stubs: map[string]bool{}, known: map[string]bool{},
		summaries: map[string]bool{}, initDone: map[*ssa.Package]bool{}, nextObj: 1,
		hooks: map[string]func(*Interp, []Value) []Value{}, lockState: map[string]int{}, stash: map[string]Value{}, stashCount: map[string]int{}, harnessFn: map[*ssa.Function]bool{}}
}

func (in *Interp) logAccess(o *Object, slot int, write bool) {
	in.acclog = append(in.acclog, accEntry{o, slot, write, in.curGor, in.guardTerm(), in.nextGor, in.recvTotal, "", in.curVC(), in.cur, in.held[in.curGor]})
}

type raceConflict struct {
	a, b accEntry
}

// findRaces: conflicting accesses (same cell, at least one write) by two different goroutine
// instances, or by the spawning goroutine between a spawn and the join, on objects that the
// accessing goroutine did not allocate itself.  Every interleaving of the goroutines is covered
// because no ordering between them is assumed (two-thread reduction over the recorded footprints).
func (in *Interp) findRaces() []raceConflict {
	type key struct {
		o *Object
		s int
	}
	byCell := map[key][]accEntry{}
	for _, e := range in.acclog {
		if e.obj.gor == e.gor && e.gor != 0 {
			continue // private to the goroutine that allocated it
		}
		byCell[key{e.obj, e.slot}] = append(byCell[key{e.obj, e.slot}], e)
	}
	var out []raceConflict
	seen := map[string]bool{}
	for k, es := range byCell {
		for i := 0; i < len(es); i++ {
			for j := i + 1; j < len(es); j++ {
				a, b := es[i], es[j]
				if a.gor == b.gor || (!a.write && !b.write) {
					continue
				}
				if a.gor == 0 || b.gor == 0 {
					m, g := a, b
					if b.gor == 0 {
						m, g = b, a
					}
					// main access is ordered before goroutine g if g was not yet spawned, and after
					// it if all spawned goroutines have been joined
					if m.spawned < g.gor || (m.recvd >= m.spawned && m.spawned >= g.gor) {
						continue
					}
				}
				id := fmt.Sprintf("%d:%d:%d:%d", k.o.id, k.s, a.gor, b.gor)
				if seen[id] {
					continue
				}
				seen[id] = true
				out = append(out, raceConflict{a, b})
			}
		}
	}
	return out
}

func (in *Interp) guardTerm() *Term { return in.ts.And(in.guards...) }

// ---- path condition ----

func (in *Interp) pc() []*Term {
	out := make([]*Term, 0, len(in.assumes)+len(in.guards))
	out = append(out, in.assumes...)
	out = append(out, in.guards...)
	return out
}

// assume adds c under the current guards
func (in *Interp) assume(c *Term) {
	if c.IsTrue() {
		return
	}
	g := in.ts.Implies(in.guardTerm(), c)
	if g.IsTrue() {
		return
	}
	if g.op == "and" {
		in.assumes = append(in.assumes, g.args...)
		return
	}
	in.assumes = append(in.assumes, g)
}

// axiom: a fact that holds regardless of guards
func (in *Interp) axiom(c *Term) {
	if !c.IsTrue() {
		in.assumes = append(in.assumes, c)
	}
}

// independence slicing: keep pc conjuncts transitively sharing variables with q
func (in *Interp) slice(pc []*Term, q *Term) []*Term {
	want := map[int]struct{}{}
	for k := range in.ts.VarsOf(q) {
		want[k] = struct{}{}
	}
	used := make([]bool, len(pc))
	changed := true
	for changed {
		changed = false
		for i, c := range pc {
			if used[i] {
				continue
			}
			vs := in.ts.VarsOf(c)
			hit := false
			for k := range vs {
				if _, ok := want[k]; ok {
					hit = true
					break
				}
			}
			if hit {
				used[i] = true
				changed = true
				for k := range vs {
					want[k] = struct{}{}
				}
			}
		}
	}
	var out []*Term
	for i, c := range pc {
		if used[i] {
			out = append(out, c)
		}
	}
	return out
}

// feasible: is pc ∧ c satisfiable?  unknown counts as feasible.
func (in *Interp) feasible(c *Term) bool {
	if c.IsTrue() {
		return true
	}
	if c.IsFalse() {
		return false
	}
	nc := in.ts.Not(c)
	for _, a := range in.assumes {
		if a == c {
			return true
		}
		if a == nc {
			return false
		}
	}
	for _, a := range in.guards {
		if a == c {
			return true
		}
		if a == nc {
			return false
		}
	}
	q := append(in.slice(in.pc(), c), c)
	ids := make([]int, len(q))
	for i, t := range q {
		ids[i] = t.id
	}
	sort.Ints(ids)
	var kb strings.Builder
	last := -1
	for _, id := range ids {
		if id != last {
			fmt.Fprintf(&kb, "%d,", id)
		}
		last = id
	}
	key := kb.String()
	if in.feasCache != nil {
		if v, ok := in.feasCache[key]; ok {
			return v
		}
	}
	in.stats.feas++
	r, _ := in.sol.Check(q, false, in.cfg.FeasMs)
	if in.feasCache != nil {
		in.feasCache[key] = r != "unsat"
	}
	return r != "unsat"
}

func (in *Interp) site(instr ssa.Instruction) string {
	if instr == nil {
		return ""
	}
	p := in.prog.Fset.Position(instr.Pos())
	f := instr.Parent()
	name := ""
	if f != nil {
		name = f.String()
	}
	if !p.IsValid() {
		return name
	}
	fn := p.Filename
	if repoRoot != "" && strings.HasPrefix(fn, repoRoot+"/") {
		fn = fn[len(repoRoot)+1:]
	} else if i := strings.LastIndex(fn, "/repo/"); i >= 0 {
		fn = fn[i+6:]
	}
	return fmt.Sprintf("%s:%d (%s)", fn, p.Line, name)
}


// obligation: pc ∧ ¬cond must be unsat.  Always continues assuming cond.
func (in *Interp) obligation(label, kind string, cond *Term) {
	if cond.IsTrue() {
		if kind == "assert" {
			in.trivialN++
			in.emit(&Obligation{Harness: in.harness, Label: label, Kind: kind, Result: "unsat", Solver: "trivial", Key: fmt.Sprintf("trivial:%s:%s:%d", label, in.pathID, in.trivialN), PathID: in.pathID})
		}
		return
	}
	neg := in.ts.Not(cond)
	// the whole path condition: guards of unpruned arms may be infeasible on their own, and a
	// counterexample must give a value to every harness symbol to be replayable
	q := append(in.pc(), neg)
	ob := &Obligation{Harness: in.harness, Label: label, Kind: kind, Site: in.site(in.curInstr()), PathID: in.pathID, Hunt: in.huntNext, Env: append([]string{}, in.replayEnv...)}
	in.fillScript(ob, q)
	in.emit(ob)
	if kind != "assert" {
		in.assume(cond)
	}
}

// obligation2: exact form first, toleranced form as fall-back; nothing is assumed afterwards.
func (in *Interp) obligation2(label string, exact, tol *Term) {
	if exact.IsTrue() {
		in.obligation(label, "assert", exact)
		return
	}
	ob := &Obligation{Harness: in.harness, Label: label, Kind: "assert", Site: in.site(in.curInstr()), PathID: in.pathID, Env: append([]string{}, in.replayEnv...)}
	in.fillScript(ob, append(in.pc(), in.ts.Not(exact)))
	ob2 := &Obligation{}
	in.fillScript(ob2, append(in.pc(), in.ts.Not(tol)))
	ob.Script2, ob.Vars2 = ob2.Script, ob2.Vars
	in.emit(ob)
}

// symBounds: constant lower/upper bounds that the assumptions put directly on harness symbols
func (in *Interp) symBounds() map[string][2]float64 {
	out := map[string][2]float64{}
	has := map[string][2]bool{}
	num := func(t *Term) (float64, bool) {
		if !t.IsConst() {
			return 0, false
		}
		switch {
		case t.sort == SReal:
			f, _ := t.r.Float64()
			return f, true
		case t.sort == SInt:
			f, _ := new(big.Float).SetInt(t.i).Float64()
			return f, true
		}
		return 0, false
	}
	var visit func(t *Term)
	visit = func(t *Term) {
		switch t.op {
		case "and":
			for _, a := range t.args {
				visit(a)
			}
		case "fle", "flt", "sle", "slt":
			a, b := t.args[0], t.args[1]
			if a.op == "var" && strings.HasPrefix(a.name, "sym:") {
				if c, ok := num(b); ok {
					bb, hh := out[a.name], has[a.name]
					if !hh[1] || c < bb[1] {
						bb[1], hh[1] = c, true
					}
					out[a.name], has[a.name] = bb, hh
				}
			}
			if b.op == "var" && strings.HasPrefix(b.name, "sym:") {
				if c, ok := num(a); ok {
					bb, hh := out[b.name], has[b.name]
					if !hh[0] || c > bb[0] {
						bb[0], hh[0] = c, true
					}
					out[b.name], has[b.name] = bb, hh
				}
			}
		}
	}
	for _, a := range in.assumes {
		visit(a)
	}
	for k, hh := range has {
		if !(hh[0] && hh[1]) {
			delete(out, k)
		}
	}
	return out
}

// symOrders: assumptions of the form sym <= sym (used to repair pseudo-random probe points)
func (in *Interp) symOrders() [][2]string {
	var out [][2]string
	var visit func(t *Term)
	visit = func(t *Term) {
		switch t.op {
		case "and":
			for _, a := range t.args {
				visit(a)
			}
		case "fle", "flt":
			a, b := t.args[0], t.args[1]
			if a.op == "var" && b.op == "var" && strings.HasPrefix(a.name, "sym:") && strings.HasPrefix(b.name, "sym:") {
				out = append(out, [2]string{a.name, b.name})
			}
		}
	}
	for _, a := range in.assumes {
		visit(a)
	}
	return out
}

func (in *Interp) fillScript(ob *Obligation, q []*Term) {
	ob.Script = in.ts.Script(q, nil)
	if ob.Kind == "assert" {
		// shared between all obligations emitted under the same set of assumptions
		var last *Term
		if n := len(in.assumes); n > 0 {
			last = in.assumes[n-1]
		}
		if in.boundsAt != len(in.assumes) || in.boundsLast != last || in.boundsCache == nil {
			// (only used to steer pseudo-random probe points, never for a verdict)
			in.boundsCache, in.ordersCache, in.boundsAt, in.boundsLast = in.symBounds(), in.symOrders(), len(in.assumes), last
		}
		ob.Bounds, ob.Orders = in.boundsCache, in.ordersCache
	}
	ob.Vars = map[string]Sort{}
	ids := map[int]struct{}{}
	for _, a := range q {
		for k := range in.ts.VarsOf(a) {
			ids[k] = struct{}{}
		}
	}
	for _, v := range in.ts.vars {
		if _, ok := ids[v.id]; ok {
			ob.Vars[v.name] = v.sort
		}
	}
	var ks []string
	for _, a := range q {
		ks = append(ks, fmt.Sprint(a.id))
	}
	kh := sha1.Sum([]byte(in.harness + "|" + ob.Label + "|" + strings.Join(ks, ",")))
	ob.Key = string(kh[:12])
}

// implicit obligation (bounds, nil, div by zero, explicit panic)
func (in *Interp) implicitFail(what string, okCond *Term) {
	if in.summaries["NoKernelImplicit"] {
		// wrapper-level harnesses: panics raised by kernel code itself (model source files) are
		// assumed away; panics in generated wrappers, the array library and sim are obligations
		st := in.site(in.cur)
		if strings.HasPrefix(st, "models/") && !strings.Contains(st, "generated_") && !strings.Contains(st, "zz_") {
			in.assume(okCond)
			return
		}
	}
	if in.summaries["NoImplicit"] {
		// this harness decides its named assertions only; panics are assumed away here and are the
		// business of its sibling harness (stated in its doc)
		in.assume(okCond)
		return
	}
	if in.summaries["HuntImplicit"] {
		// implicit obligations of this harness are counterexample searches only (stated in its doc)
		in.huntNext = true
		in.obligation("no-panic:"+what, "implicit", okCond)
		in.huntNext = false
		return
	}
	in.obligation("no-panic:"+what, "implicit", okCond)
}

// repoRoot: directory of the repository under test (set by the driver; sites are relative to it)
var repoRoot string

func (in *Interp) reach(label string) {
	// vacuity witness: pc must be satisfiable here
	q := in.pc()
	ob := &Obligation{Harness: in.harness, Label: "reach:" + label, Kind: "reach", WantSat: true, PathID: in.pathID}
	if len(q) == 0 {
		ob.Result = "sat"
		ob.Solver = "trivial"
		ob.Key = in.harness + "|reach:" + label + "|trivial"
	} else {
		in.fillScript(ob, q)
	}
	in.emit(ob)
}

type runSpec struct {
	forced map[int]int
	sites  map[int]string
}

// specWith: the decisions taken so far (indices < k) plus decision k := v
func (in *Interp) specWith(k, v int) *runSpec {
	rs := &runSpec{forced: map[int]int{}, sites: map[int]string{}}
	for kk, vv := range in.taken {
		if kk < k {
			rs.forced[kk] = vv
			rs.sites[kk] = in.decSite[kk]
		}
	}
	rs.forced[k] = v
	rs.sites[k] = in.decSite[k]
	return rs
}

func (in *Interp) curInstr() ssa.Instruction { return in.cur }

// concretize a symbolic integer by forking over its feasible values
func (in *Interp) concretize(t *Term, why string) int {
	if t.IsConst() {
		return int(signedOrInt(t).Int64())
	}
	k := in.nextDec
	in.nextDec++
	if v, ok := in.forced[k]; ok {
		if old := in.forcedSite[k]; old != fmt.Sprintf("conc:%s#%d", why, t.id) {
			panic(unsupported{"decision numbering diverged between runs (" + old + ")"})
		}
		in.taken[k] = v
		in.decSite[k] = in.forcedSite[k]
		in.assume(in.ts.Eq(t, in.ts.IntConst64(t.sort, int64(v))))
		return v
	}
	// enumerate feasible values
	var vals []int
	base := in.slice(in.pc(), t)
	block := []*Term{}
	limit := in.cfg.MaxConcrete
	for len(vals) <= limit {
		q := append(append([]*Term{}, base...), block...)
		// need a model for t: introduce equality with a fresh var of same sort
		pv := in.ts.Var("conc!probe!"+t.sort.String(), t.sort)
		q = append(q, in.ts.Eq(pv, t))
		r, m := in.sol.Check(q, true, in.cfg.FeasMs*4)
		if r == "unsat" {
			break
		}
		if r != "sat" || m == nil {
			panic(unsupported{"concretize: solver unknown for " + why})
		}
		dv, ok := DecodeValue(m[pv.name], t.sort)
		if !ok {
			panic(unsupported{"concretize: cannot decode model value " + m[pv.name]})
		}
		bi := dv.(*big.Int)
		if t.sort.IsBV() {
			bi = signedBV(bi, t.sort.Bits())
		}
		v := int(bi.Int64())
		vals = append(vals, v)
		block = append(block, in.ts.Not(in.ts.Eq(t, in.ts.IntConst64(t.sort, int64(v)))))
	}
	if len(vals) > limit {
		panic(unsupported{fmt.Sprintf("concretize(%s): more than %d feasible values", why, limit)})
	}
	if len(vals) == 0 {
		panic(pathDead{"concretize: infeasible"})
	}
	sort.Ints(vals)
	in.stats.forks += len(vals) - 1
	siteKey := fmt.Sprintf("conc:%s#%d", why, t.id)
	in.decSite[k] = siteKey
	for _, v := range vals[1:] {
		in.pending = append(in.pending, in.specWith(k, v))
	}
	in.taken[k] = vals[0]
	in.assume(in.ts.Eq(t, in.ts.IntConst64(t.sort, int64(vals[0]))))
	return vals[0]
}

// ---- function info ----

func (in *Interp) info(fn *ssa.Function) *funcInfo {
	if fi, ok := in.finfo[fn]; ok {
		return fi
	}
	fi := &funcInfo{reg: map[ssa.Value]int{}, ipdom: map[*ssa.BasicBlock]*ssa.BasicBlock{}}
	n := 0
	for _, p := range fn.Params {
		fi.reg[p] = n
		n++
	}
	for _, p := range fn.FreeVars {
		fi.reg[p] = n
		n++
	}
	for _, b := range fn.Blocks {
		for _, ins := range b.Instrs {
			if v, ok := ins.(ssa.Value); ok {
				fi.reg[v] = n
				n++
			}
		}
	}
	fi.nregs = n
	computeIPDom(fn, fi)
	computeSCC(fn, fi)
	in.finfo[fn] = fi
	return fi
}

// immediate post-dominators on the CFG restricted to blocks that can reach a Return.
func computeIPDom(fn *ssa.Function, fi *funcInfo) {
	nb := len(fn.Blocks)
	if nb == 0 {
		return
	}
	exit := nb // virtual exit index
	canReach := make([]bool, nb+1)
	canReach[exit] = true
	succs := make([][]int, nb+1)
	for _, b := range fn.Blocks {
		if len(b.Instrs) > 0 {
			if _, ok := b.Instrs[len(b.Instrs)-1].(*ssa.Return); ok {
				succs[b.Index] = append(succs[b.Index], exit)
			}
		}
		for _, s := range b.Succs {
			succs[b.Index] = append(succs[b.Index], s.Index)
		}
	}
	changed := true
	for changed {
		changed = false
		for i := 0; i < nb; i++ {
			if canReach[i] {
				continue
			}
			for _, s := range succs[i] {
				if canReach[s] {
					canReach[i] = true
					changed = true
					break
				}
			}
		}
	}
	fi.canReturn = map[*ssa.BasicBlock]bool{}
	for i := 0; i < nb; i++ {
		fi.canReturn[fn.Blocks[i]] = canReach[i]
	}
	// post-dominator sets via iterative dataflow (functions are small)
	full := make([]bool, nb+1)
	for i := range full {
		full[i] = true
	}
	pd := make([][]bool, nb+1)
	for i := 0; i <= nb; i++ {
		pd[i] = append([]bool{}, full...)
	}
	pd[exit] = make([]bool, nb+1)
	pd[exit][exit] = true
	changed = true
	for changed {
		changed = false
		for i := nb - 1; i >= 0; i-- {
			if !canReach[i] {
				continue
			}
			nw := append([]bool{}, full...)
			any := false
			for _, s := range succs[i] {
				if !canReach[s] {
					continue
				}
				any = true
				for j := range nw {
					nw[j] = nw[j] && pd[s][j]
				}
			}
			if !any {
				continue
			}
			nw[i] = true
			same := true
			for j := range nw {
				if nw[j] != pd[i][j] {
					same = false
					break
				}
			}
			if !same {
				pd[i] = nw
				changed = true
			}
		}
	}
	count := func(s []bool) int {
		c := 0
		for _, b := range s {
			if b {
				c++
			}
		}
		return c
	}
	for i := 0; i < nb; i++ {
		if !canReach[i] {
			continue
		}
		// ipdom = strict post-dominator with the largest pdom set (closest)
		best, bestN := -1, -1
		for j := 0; j <= nb; j++ {
			if j == i || !pd[i][j] {
				continue
			}
			c := count(pd[j])
			if c > bestN {
				best, bestN = j, c
			}
		}
		if best >= 0 && best != exit {
			fi.ipdom[fn.Blocks[i]] = fn.Blocks[best]
		}
	}
}

// ---- constants ----

func (in *Interp) constValue(c *ssa.Const) Value {
	t := c.Type()
	if c.Value == nil {
		return in.zero(t)
	}
	if b, ok := t.Underlying().(*types.Basic); ok {
		switch {
		case b.Info()&types.IsString != 0:
			return StrV(constant.StringVal(c.Value))
		case b.Info()&types.IsBoolean != 0:
			return in.ts.Bool(constant.BoolVal(c.Value))
		case b.Info()&types.IsInteger != 0:
			s, _ := in.sortOf(t)
			v := constant.ToInt(c.Value)
			bi, ok := new(big.Int).SetString(v.ExactString(), 10)
			if !ok {
				panic(unsupported{"int const " + v.ExactString()})
			}
			return in.ts.IntConst(s, bi)
		case b.Info()&types.IsFloat != 0:
			s, _ := in.sortOf(t)
			f, _ := constant.Float64Val(constant.ToFloat(c.Value))
			if b.Kind() == types.Float32 {
				f = float64(float32(f))
			}
			return in.ts.FloatConst(s, f)
		}
	}
	panic(unsupported{"const of type " + t.String()})
}

func (in *Interp) global(g *ssa.Global) *Object {
	if o, ok := in.globals[g]; ok {
		return o
	}
	et := g.Type().(*types.Pointer).Elem()
	o := in.newObject(et, 1, g.String())
	o.kind = "global"
	o.gor = 0
	in.globals[g] = o
	return o
}

func (in *Interp) get(fr *Frame, v ssa.Value) Value {
	switch x := v.(type) {
	case *ssa.Const:
		return in.constValue(x)
	case *ssa.Global:
		in.ensureInit(x.Pkg)
		return &PtrV{obj: in.global(x)}
	case *ssa.Function:
		return &ClosureV{fn: x}
	case *ssa.Builtin:
		return &ClosureV{builtin: x.Name()}
	}
	idx, ok := fr.info.reg[v]
	if !ok {
		panic(unsupported{"unknown register " + v.Name()})
	}
	val := fr.env[idx]
	if p, ok := val.(PoisonV); ok {
		panic(mergeAbort{p.k})
	}
	if val == nil {
		panic(unsupported{"undefined register " + v.Name() + " in " + fr.fn.String()})
	}
	return val
}

func (in *Interp) set(fr *Frame, v ssa.Value, val Value) {
	fr.env[fr.info.reg[v]] = val
}

func (in *Interp) term(fr *Frame, v ssa.Value) *Term {
	t, ok := in.get(fr, v).(*Term)
	if !ok {
		panic(unsupported{fmt.Sprintf("expected scalar for %s, got %T", v.Name(), in.get(fr, v))})
	}
	return t
}

func (in *Interp) concreteInt(fr *Frame, v ssa.Value, why string) int {
	return in.concretize(in.term(fr, v), why)
}

var _ = token.ADD

// natural loops: for every back edge t->h (h dominates t) the set of blocks that reach t
// without passing through h.  prune[b] is true when the branch in b decides about leaving a
// loop that contains it (its immediate post-dominator lies outside that loop).
func computeSCC(fn *ssa.Function, fi *funcInfo) {
	fi.scc = map[*ssa.BasicBlock]int{}
	fi.prune = map[*ssa.BasicBlock]bool{}
	fi.backedge = map[[2]int]bool{}
	fi.exitSucc = map[*ssa.BasicBlock]int{}
	var loops []map[*ssa.BasicBlock]bool
	var loopHeaders []*ssa.BasicBlock
	fi.exitHeader = map[*ssa.BasicBlock]*ssa.BasicBlock{}
	for _, t := range fn.Blocks {
		for _, h := range t.Succs {
			if !h.Dominates(t) {
				continue
			}
			fi.backedge[[2]int{t.Index, h.Index}] = true
			body := map[*ssa.BasicBlock]bool{h: true}
			stack := []*ssa.BasicBlock{t}
			for len(stack) > 0 {
				x := stack[len(stack)-1]
				stack = stack[:len(stack)-1]
				if body[x] {
					continue
				}
				body[x] = true
				for _, p := range x.Preds {
					stack = append(stack, p)
				}
			}
			loops = append(loops, body)
			loopHeaders = append(loopHeaders, h)
		}
	}
	type loopT struct {
		h    *ssa.BasicBlock
		body map[*ssa.BasicBlock]bool
	}
	_ = loopT{}
	for _, b := range fn.Blocks {
		if len(b.Succs) != 2 {
			continue
		}
		J := fi.ipdom[b]
		bestSize := -1
		for i, L := range loops {
			if !L[b] {
				continue
			}
			fi.scc[b] = i + 1
			if J == nil || !L[J] {
				fi.prune[b] = true
			}
			// a side that leaves the loop and can still reach a return is a loop exit
			in0, in1 := L[b.Succs[0]], L[b.Succs[1]]
			if in0 != in1 && (bestSize < 0 || len(L) < bestSize) {
				out := b.Succs[0]
				side := 0
				if in0 {
					out, side = b.Succs[1], 1
				}
				if fi.canReturn[out] {
					bestSize = len(L)
					fi.exitSucc[b] = side
					fi.exitHeader[b] = loopHeaders[i]
				}
			}
		}
	}
}

// chooseAmong: an n-way fork (decision point): this run takes the forced choice or choice 0 and
// schedules the others.
func (in *Interp) chooseAmong(n int, why string) int {
	if n <= 1 {
		return 0
	}
	k := in.nextDec
	in.nextDec++
	siteKey := "choose:" + why
	if v, ok := in.forced[k]; ok {
		if old := in.forcedSite[k]; old != siteKey {
			panic(unsupported{"decision numbering diverged between runs (" + old + ")"})
		}
		in.taken[k] = v
		in.decSite[k] = siteKey
		return v
	}
	in.decSite[k] = siteKey
	for v := 1; v < n; v++ {
		in.pending = append(in.pending, in.specWith(k, v))
	}
	in.stats.forks += n - 1
	in.taken[k] = 0
	return 0
}
