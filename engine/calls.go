package main

import (
	"bytes"
	"fmt"
	"go/types"
	"math"
	"math/big"
	"strings"

	"golang.org/x/tools/go/ssa"
)

func (in *Interp) prepareCall(fr *Frame, c *ssa.CallCommon) ([]Value, Value) {
	var args []Value
	if c.IsInvoke() {
		recv := in.get(fr, c.Value).(*IfaceV)
		if recv.typ == nil {
			in.implicitFail("nil-interface-call", in.ts.False())
			panic(pathDead{"method call on nil interface"})
		}
		ms := in.prog.MethodSets.MethodSet(recv.typ)
		sel := ms.Lookup(c.Method.Pkg(), c.Method.Name())
		if sel == nil {
			panic(unsupported{"method " + c.Method.Name() + " not found on " + recv.typ.String()})
		}
		fn := in.prog.MethodValue(sel)
		args = append(args, recv.val)
		for _, a := range c.Args {
			args = append(args, in.get(fr, a))
		}
		return args, &ClosureV{fn: fn}
	}
	for _, a := range c.Args {
		args = append(args, in.get(fr, a))
	}
	return args, in.get(fr, c.Value)
}

func (in *Interp) inRepo(fn *ssa.Function) bool {
	p := fn.Package()
	if p == nil {
		// synthetic wrappers / bound methods / instantiations: decide by the origin
		if fn.Origin() != nil && fn.Origin().Package() != nil {
			p = fn.Origin().Package()
		} else if fn.Object() != nil && fn.Object().Pkg() != nil {
			return strings.HasPrefix(fn.Object().Pkg().Path(), in.repoPrefix)
		} else if fn.Parent() != nil {
			return in.inRepo(fn.Parent())
		} else {
			return fn.Blocks != nil
		}
	}
	if strings.HasSuffix(p.Pkg.Path(), "/io/protobuf") {
		return false // generated protobuf bindings (reflection-driven registration): environment
	}
	if p.Pkg.Path() == hdf5Pkg {
		return true // the in-memory model of the HDF5 library is executed like repository code
	}
	return strings.HasPrefix(p.Pkg.Path(), in.repoPrefix)
}

const hdf5Pkg = "gonum.org/v1/hdf5"

var hdf5WriteOps = map[string]bool{"Write": true, "WriteSubset": true, "CreateDataset": true, "CreateDatasetWith": true, "CreateGroup": true, "CreateFile": true}

// lockCheck: every call from the repository into the (non-thread-safe) HDF5 library must be made
// with the package lock held, write operations with the write lock.
func (in *Interp) lockCheck(fn *ssa.Function, fr *Frame) {
	if fn.Pkg == nil || fn.Pkg.Pkg.Path() != hdf5Pkg || fr == nil || fr.fn.Pkg == nil || fr.fn.Pkg.Pkg.Path() == hdf5Pkg {
		return
	}
	if fn.Name() == "DisplayErrors" || fn.Name() == "Reset" || fn.Name() == "Exists" || fn.Name() == "init" || strings.HasSuffix(fr.fn.Pkg.Pkg.Path(), "zzverif/vsym") || in.harnessFn[fr.fn] || strings.HasPrefix(fr.fn.Name(), "H_") {
		return
	}
	if !in.repoFrame(fr) {
		return
	}
	held, write := false, false
	for _, st := range in.lockState {
		if st != 0 {
			held = true
		}
		if st == -1 {
			write = true
		}
	}
	if !held {
		in.obligation("hdf5-call-under-lock:"+fn.Name()+":"+shortSite(in.site(in.cur)), "implicit", in.ts.False())
	} else if hdf5WriteOps[fn.Name()] && !write {
		in.obligation("hdf5-write-under-write-lock:"+fn.Name()+":"+shortSite(in.site(in.cur)), "implicit", in.ts.False())
	}
}

func (in *Interp) invoke(fnv Value, args []Value, c *ssa.CallCommon, fr *Frame) []Value {
	cl, ok := fnv.(*ClosureV)
	if !ok || cl == nil {
		in.implicitFail("nil-func-call", in.ts.False())
		panic(pathDead{"call of nil function"})
	}
	if cl.builtin != "" {
		return in.builtin(cl.builtin, args, c, fr)
	}
	fn := cl.fn
	name := fn.String()
	if fn.Pkg != nil && strings.HasSuffix(fn.Pkg.Pkg.Path(), "zzverif/vsym") {
		return in.vsymCall(fn.Name(), args, c)
	}
	if h, ok := in.hooks[name]; ok {
		return h(in, args)
	}
	if in.summaries["Piecewise"] && name == repoMod+"/util/fn.Piecewise" {
		// opaque table lookup: an uninterpreted function of the argument per table (stated abstraction)
		ys := args[2].(*IfaceV).val.(*PtrV)
		in.notes = appendNote(in.notes, "fn.Piecewise summarised as an uninterpreted function per table (the obligations of this harness do not depend on table values)")
		return []Value{in.ackermannNamed(fmt.Sprintf("pw%d", ys.obj.id), []*Term{args[0].(*Term)}, false), &IfaceV{}}
	}
	if in.summaries["FindRoot"] && name == repoMod+"/util/fn.FindRoot" {
		return in.findRootSummary(args, c, fr)
	}
	if nOut := in.kernelSummaryFor(fn.Name()); nOut >= 0 && in.inRepo(fn) {
		nRes := fn.Signature.Results().Len()
		res := in.kernelSummary(fn.Name(), nOut, args, nRes)
		if nRes > 1 {
			return []Value{TupleV(res)}
		}
		return res
	}
	if in.summaries["uf:"+fn.Name()] && in.inRepo(fn) {
		// stated abstraction: the callee is an arbitrary (deterministic) function of its float
		// arguments; what is proved holds for every such function, hence for the real one
		ts := make([]*Term, len(args))
		okAll := true
		for i, a := range args {
			t, isT := a.(*Term)
			if !isT || !(t.sort == SReal || t.sort.IsFP()) {
				okAll = false
				break
			}
			ts[i] = t
		}
		if okAll {
			in.notes = appendNote(in.notes, fn.Name()+" summarised as an uninterpreted function of its arguments")
			return []Value{in.ackermannNamedX("fn_"+fn.Name(), ts, false, false)}
		}
	}
	if fn.Name() == "init" && fn.Synthetic != "" && fn.Pkg != nil {
		if !in.inRepo(fn) {
			return nil
		}
		if in.initDone[fn.Pkg] {
			return nil
		}
		in.initDone[fn.Pkg] = true
	}
	if !in.inRepo(fn) || len(fn.Blocks) == 0 {
		return in.intrinsic(name, fn, args)
	}
	in.lockCheck(fn, fr)
	return in.callFunction(fn, args, cl.bind)
}

func (in *Interp) ensureInit(p *ssa.Package) {
	if p == nil || in.initDone[p] {
		return
	}
	in.initDone[p] = true
	if !strings.HasPrefix(p.Pkg.Path(), in.repoPrefix) && p.Pkg.Path() != hdf5Pkg {
		return
	}
	if in.noInit {
		return
	}
	f := p.Func("init")
	if f == nil || len(f.Blocks) == 0 {
		return
	}
	sg, sa, sj := in.guards, in.assumes, in.logOn
	in.guards = nil
	in.logOn = false
	func() {
		defer func() {
			if r := recover(); r != nil {
				in.notes = appendNote(in.notes, fmt.Sprintf("init of %s not fully executed: %v", p.Pkg.Path(), r))
			}
		}()
		in.callFunction(f, nil, nil)
	}()
	in.guards, in.assumes, in.logOn = sg, sa, sj
}

func (in *Interp) builtin(name string, args []Value, c *ssa.CallCommon, fr *Frame) []Value {
	is := in.intSort()
	switch name {
	case "len", "cap":
		switch x := args[0].(type) {
		case *SliceV:
			if name == "len" {
				return []Value{in.ts.IntConst64(is, int64(x.len))}
			}
			return []Value{in.ts.IntConst64(is, int64(x.cap))}
		case StrV:
			return []Value{in.ts.IntConst64(is, int64(len(x)))}
		case *MapV:
			return []Value{in.ts.IntConst64(is, int64(len(x.keys)))}
		case *ChanV:
			return []Value{in.ts.IntConst64(is, int64(len(x.queue)))}
		case *PtrV:
			at := c.Args[0].Type().Underlying().(*types.Pointer).Elem().Underlying().(*types.Array)
			return []Value{in.ts.IntConst64(is, at.Len())}
		case *ArrayV:
			return []Value{in.ts.IntConst64(is, int64(len(x.elems)))}
		}
	case "append":
		s := args[0].(*SliceV)
		var elems []Value
		esz := s.esz
		switch e := args[1].(type) {
		case *SliceV:
			for i := 0; i < e.len*e.esz; i++ {
				elems = append(elems, in.readSlot(e.obj, e.off+i))
			}
			if esz == 0 {
				esz = e.esz
			}
		case StrV:
			for i := 0; i < len(e); i++ {
				elems = append(elems, in.ts.IntConst64(in.sortMust(types.Typ[types.Uint8]), int64(e[i])))
			}
			esz = 1
		}
		if esz == 0 {
			esz = 1
		}
		nAdd := len(elems) / esz
		if nAdd == 0 {
			return []Value{s}
		}
		if s.obj != nil && s.len+nAdd <= s.cap {
			for i, v := range elems {
				in.writeSlot(s.obj, s.off+s.len*esz+i, v)
			}
			return []Value{&SliceV{obj: s.obj, off: s.off, len: s.len + nAdd, cap: s.cap, esz: esz}}
		}
		ncap := s.cap * 2
		if ncap < s.len+nAdd {
			ncap = s.len + nAdd
		}
		et := c.Args[0].Type().Underlying().(*types.Slice).Elem()
		o := in.newObject(et, ncap, "append")
		for i := 0; i < s.len*esz; i++ {
			o.slots[i] = in.readSlot(s.obj, s.off+i)
		}
		for i, v := range elems {
			o.slots[s.len*esz+i] = v
		}
		return []Value{&SliceV{obj: o, len: s.len + nAdd, cap: ncap, esz: esz}}
	case "copy":
		d := args[0].(*SliceV)
		n := d.len
		var vals []Value
		switch s := args[1].(type) {
		case *SliceV:
			if s.len < n {
				n = s.len
			}
			for i := 0; i < n*d.esz; i++ {
				vals = append(vals, in.readSlot(s.obj, s.off+i))
			}
		case StrV:
			if len(s) < n {
				n = len(s)
			}
			for i := 0; i < n; i++ {
				vals = append(vals, in.ts.IntConst64(in.sortMust(types.Typ[types.Uint8]), int64(s[i])))
			}
		}
		for i, v := range vals {
			in.writeSlot(d.obj, d.off+i, v)
		}
		return []Value{in.ts.IntConst64(is, int64(n))}
	case "print", "println":
		return nil
	case "delete":
		m := args[0].(*MapV)
		ks := in.mapKey(args[1])
		if _, ok := m.m[ks]; ok {
			delete(m.m, ks)
			delete(m.kv, ks)
			var nk []string
			for _, k := range m.keys {
				if k != ks {
					nk = append(nk, k)
				}
			}
			m.keys = nk
		}
		return nil
	case "recover":
		return []Value{&IfaceV{}}
	case "close":
		return nil
	case "ssa:wrapnilchk":
		p := args[0].(*PtrV)
		if p == nil || p.obj == nil {
			in.implicitFail("nil-deref", in.ts.False())
			panic(pathDead{"nil receiver"})
		}
		return []Value{p}
	}
	panic(unsupported{"builtin " + name})
}

// ---- conversions ----

func (in *Interp) convert(v Value, from, to types.Type) Value {
	ts := in.ts
	fu, tu := from.Underlying(), to.Underlying()
	switch x := v.(type) {
	case *Term:
		tb, ok := tu.(*types.Basic)
		if !ok {
			break
		}
		if tb.Info()&types.IsString != 0 {
			if x.IsConst() {
				return StrV(string(rune(signedOrInt(x).Int64())))
			}
			panic(unsupported{"string(symbolic int)"})
		}
		tsrt, _ := in.sortOf(to)
		switch {
		case isInteger(from) && isInteger(to):
			if in.cfg.Ints == "int" {
				return x // widths are not modelled in ints=math mode (stated assumption)
			}
			return ts.IntConv(x, tsrt, !isUnsigned(from))
		case isInteger(from) && isFloat(to):
			return ts.I2F(x, tsrt, !isUnsigned(from))
		case isFloat(from) && isInteger(to):
			r := ts.F2I(x, tsrt, !isUnsigned(to))
			if in.cfg.ConcF2I && !r.IsConst() {
				return ts.IntConst64(tsrt, int64(in.concretize(r, "float-to-int")))
			}
			return r
		case isFloat(from) && isFloat(to):
			if x.sort == tsrt {
				return x
			}
			return ts.F2F(x, tsrt)
		}
	case StrV:
		if isString(to) {
			return x
		}
		if sl, ok := tu.(*types.Slice); ok {
			o := in.newObject(sl.Elem(), len(x), "bytes")
			bs := in.sortMust(sl.Elem())
			for i := 0; i < len(x); i++ {
				o.slots[i] = ts.IntConst64(bs, int64(x[i]))
			}
			return &SliceV{obj: o, len: len(x), cap: len(x), esz: 1}
		}
	case *PtrV:
		_ = fu
		if x != nil && x.obj != nil && x.obj.kind == "cbuf" && x.obj.cwidth > 0 {
			// a caller-owned C buffer viewed through a Go pointer type: the element width of the
			// pointee must be the C element's width, else every access through it fuses or splits
			// adjacent elements and runs past the end of the buffer
			if pt, ok := tu.(*types.Pointer); ok {
				el := pt.Elem().Underlying()
				if arr, ok := el.(*types.Array); ok {
					el = arr.Elem().Underlying()
				}
				if b, ok := el.(*types.Basic); ok && b.Info()&types.IsNumeric != 0 {
					if w := types.SizesFor("gc", "amd64").Sizeof(b); int(w) != x.obj.cwidth {
						// recorded now, emitted when the path has run to its end: the counterexample then
						// carries every harness symbol and can be replayed natively (the path goes on with
						// the flat cell model, which is NOT what the machine does - hence the obligation)
						in.deferredFacts = appendNote(in.deferredFacts, "c-buffer-viewed-with-wrong-element-width")
					}
				}
			}
		}
		return x
	case *SliceV:
		if isString(to) {
			var sb strings.Builder
			for i := 0; i < x.len; i++ {
				t := in.readSlot(x.obj, x.off+i).(*Term)
				if !t.IsConst() {
					panic(unsupported{"string of symbolic bytes"})
				}
				sb.WriteByte(byte(t.i.Int64()))
			}
			return StrV(sb.String())
		}
		return x
	}
	panic(unsupported{fmt.Sprintf("convert %s -> %s (%T)", from, to, v)})
}

// real division; in R-mode the quotient at b == 0 is unconstrained (z3 semantics of /)
func (in *Interp) fdiv(a, b *Term) *Term {
	return in.ts.FOp("fdiv", a, b)
}

// ---- intrinsics for functions outside the repository ----

func (in *Interp) realConst(f float64) *Term { return in.ts.FloatConst(in.floatSort(), f) }
func (in *Interp) floatSort() Sort        { return in.sortMust(types.Typ[types.Float64]) }

func (in *Interp) fmin(a, b *Term) *Term { return in.ts.Ite(in.ts.FCmp("fle", a, b), a, b) }
func (in *Interp) fmax(a, b *Term) *Term { return in.ts.Ite(in.ts.FCmp("fle", b, a), a, b) }
func (in *Interp) fabs(a *Term) *Term {
	return in.ts.Ite(in.ts.FCmp("fle", in.realConst(0), a), a, in.ts.FNeg(a))
}

func (in *Interp) intrinsic(name string, fn *ssa.Function, args []Value) []Value {
	ts := in.ts
	in.stubs[name] = true
	real := in.cfg.Floats == "real"
	T := func(i int) *Term { return args[i].(*Term) }
	one := func(t *Term) []Value { return []Value{t} }
	if strings.HasSuffix(name, "._cgo_runtime_gostring") || strings.HasSuffix(name, "._Cfunc_GoString") {
		// C.GoString on a NUL-terminated byte buffer owned by the harness: concrete bytes only
		p, _ := args[0].(*PtrV)
		if p == nil || p.obj == nil || p.sym != nil {
			panic(unsupported{"C.GoString of a pointer the engine does not track"})
		}
		var b []byte
		for i := p.off; i < len(p.obj.slots); i++ {
			t, ok := in.readSlot(p.obj, i).(*Term)
			if !ok || !t.IsConst() {
				panic(unsupported{"C.GoString of non-constant bytes"})
			}
			v := signedOrInt(t).Int64()
			if v == 0 {
				break
			}
			b = append(b, byte(v))
		}
		return []Value{StrV(string(b))}
	}
	switch name {
	case "math.Min":
		if real {
			return one(in.fmin(T(0), T(1)))
		}
		return one(in.fpMinMax("fmin", T(0), T(1)))
	case "math.Max":
		if real {
			return one(in.fmax(T(0), T(1)))
		}
		return one(in.fpMinMax("fmax", T(0), T(1)))
	case "math.Abs":
		if real {
			return one(in.fabs(T(0)))
		}
		return one(in.fpUn("fabs", T(0)))
	case "math.Floor":
		if real {
			return one(ts.RFloor(T(0)))
		}
		return one(in.fpUn("floor", T(0)))
	case "math.Ceil":
		if real {
			return one(ts.FNeg(ts.RFloor(ts.FNeg(T(0)))))
		}
		return one(in.fpUn("ceil", T(0)))
	case "math.IsNaN":
		if real {
			return one(ts.False())
		}
		return []Value{in.fpPred("fisnan", T(0))}
	case "math.IsInf":
		if real {
			return one(ts.False())
		}
		sign := T(1)
		inf := in.fpPred("fisinf", T(0))
		neg := in.fpPred("fisneg", T(0))
		zero := ts.IntConst64(sign.sort, 0)
		pos := ts.IntCmp("slt", zero, sign)
		ngs := ts.IntCmp("slt", sign, zero)
		return one(ts.And(inf, ts.Ite(pos, ts.Not(neg), ts.Ite(ngs, neg, ts.True()))))
	case "math.NaN":
		if real && in.summaries["NaNIsFailure"] {
			// R-model: a NaN cannot be represented; constructing one is reported when the harness
			// asked for it (Summarise("NaNIsFailure")), and the value is an arbitrary real
			in.obligation("no-NaN-constructed", "assert", ts.False())
			return one(ts.Fresh("nan", SReal))
		}
		return one(ts.FloatConst(in.floatSort(), math.NaN()))
	case "math.Inf":
		s := T(0)
		if s.IsConst() {
			sg := 1
			if signedOrInt(s).Sign() < 0 {
				sg = -1
			}
			return one(ts.FloatConst(in.floatSort(), math.Inf(sg)))
		}
	case "math.Sqrt":
		if !real {
			return one(in.fpUn("fsqrt", T(0)))
		}
		return one(in.rsqrt(T(0)))
	case "math.Pow":
		if real {
			return one(in.rpow(T(0), T(1)))
		}
	case "math.Exp":
		if real {
			return one(in.mathContract("exp", T(0)))
		}
	case "math.Log":
		if real {
			return one(in.mathContract("log", T(0)))
		}
	case "math.Log10":
		if real {
			return one(in.mathContract("log10", T(0)))
		}
	case "math.Tanh":
		if real {
			return one(in.mathContract("tanh", T(0)))
		}
	case "math.Cos":
		if real {
			return one(in.mathContract("cos", T(0)))
		}
	case "encoding/json.NewDecoder", "encoding/json.NewEncoder":
		// environment: the JSON codec is replaced by a stash shared with the harness
		return []Value{(*PtrV)(nil)}
	case "(*encoding/json.Decoder).Decode":
		src, ok := in.stash["json-request"]
		if !ok {
			panic(unsupported{"json Decode without a stashed request"})
		}
		if src == nil {
			// the harness asked for a decoding error (malformed request)
			o := in.newObject(types.Typ[types.String], 1, "error")
			o.slots[0] = StrV("decode error")
			return []Value{&IfaceV{typ: errorStringType, val: &PtrV{obj: o}}}
		}
		dst := args[1].(*IfaceV).val.(*PtrV)
		sp := src.(*PtrV)
		n := len(sp.obj.slots) - sp.off
		if m := len(dst.obj.slots) - dst.off; m < n {
			n = m
		}
		for i := 0; i < n; i++ {
			in.writeSlot(dst.obj, dst.off+i, sp.obj.slots[sp.off+i])
		}
		return []Value{&IfaceV{}}
	case "(*encoding/json.Encoder).Encode":
		in.stash["json-response"] = args[1]
		in.stashCount["json-response"]++
		return []Value{&IfaceV{}}
	case "flag.String", "flag.Bool", "flag.Int", "flag.Float64":
		// command-line flags: a cell holding the declared default (harnesses may overwrite it)
		var t types.Type
		switch name {
		case "flag.String":
			t = types.Typ[types.String]
		case "flag.Bool":
			t = types.Typ[types.Bool]
		case "flag.Int":
			t = types.Typ[types.Int]
		default:
			t = types.Typ[types.Float64]
		}
		o := in.newObject(t, 1, "flag:"+strArg(args[0]))
		o.slots[0] = args[1]
		return []Value{&PtrV{obj: o}}
	case "flag.BoolVar", "flag.StringVar", "flag.IntVar":
		in.store(args[0].(*PtrV), args[2])
		return nil
	case "flag.Parse":
		return nil
	case "bytes.Index":
		bs := func(v Value) []byte {
			sl := v.(*SliceV)
			out := make([]byte, sl.len)
			for i := 0; i < sl.len; i++ {
				t := in.readSlot(sl.obj, sl.off+i).(*Term)
				if !t.IsConst() {
					panic(unsupported{"bytes.Index on symbolic bytes"})
				}
				out[i] = byte(t.i.Int64())
			}
			return out
		}
		return []Value{in.ts.IntConst64(in.intSort(), int64(bytes.Index(bs(args[0]), bs(args[1]))))}
	case "os.Remove":
		return []Value{&IfaceV{}}
	case "reflect.TypeOf":
		iv := args[0].(*IfaceV)
		ts := "<nil>"
		if iv.typ != nil {
			ts = iv.typ.String()
		}
		return []Value{&IfaceV{typ: reflectTypeType, val: StrV(ts)}}
	case "os.Stat":
		// file system = the HDF5 model's file table
		exists := false
		for _, p := range in.prog.AllPackages() {
			if p.Pkg.Path() == hdf5Pkg {
				if f := p.Func("Exists"); f != nil {
					r := in.callFunction(f, []Value{args[0]}, nil)
					exists = r[0].(*Term).IsTrue()
				}
			}
		}
		if exists {
			return []Value{&IfaceV{}, &IfaceV{}}
		}
		o := in.newObject(types.Typ[types.String], 1, "error")
		o.slots[0] = StrV("file does not exist")
		return []Value{&IfaceV{}, &IfaceV{typ: errorStringType, val: &PtrV{obj: o}}}
	case "os.IsNotExist":
		return []Value{in.ts.Bool(args[0].(*IfaceV).typ != nil)}
	case "errors.New":
		o := in.newObject(types.Typ[types.String], 1, "error")
		o.slots[0] = args[0]
		return []Value{&IfaceV{typ: errorStringType, val: &PtrV{obj: o}}}
	case "(*errors.errorString).Error":
		return []Value{in.readSlot(args[0].(*PtrV).obj, 0)}
	case "fmt.Println", "fmt.Printf", "fmt.Print":
		return []Value{ts.IntConst64(in.intSort(), 0), &IfaceV{}}
	case "fmt.Sprintf", "fmt.Sprint", "fmt.Sprintln":
		return []Value{in.sprint(name, args)}
	case "fmt.Errorf":
		o := in.newObject(types.Typ[types.String], 1, "error")
		o.slots[0] = in.sprint(name, args)
		return []Value{&IfaceV{typ: errorStringType, val: &PtrV{obj: o}}}
	case "os.Exit":
		in.notes = appendNote(in.notes, "os.Exit reached")
		panic(pathDead{"os.Exit"})
	case "strings.Split", "strings.Join", "strings.Contains", "strings.HasPrefix", "strings.ToLower",
		"strings.LastIndex", "strings.Index", "strings.HasSuffix", "strings.TrimPrefix", "strings.TrimSuffix", "strings.ToUpper", "strings.TrimSpace":
		return in.stringsCall(name, args)
	case "(*sync.RWMutex).Lock", "(*sync.RWMutex).Unlock", "(*sync.RWMutex).RLock", "(*sync.RWMutex).RUnlock",
		"(*sync.Mutex).Lock", "(*sync.Mutex).Unlock":
		return in.lockOp(name, args)
	case "runtime.GOMAXPROCS", "runtime.NumCPU":
		// environment: the processor count is an arbitrary value in 1..4 (stated bound), one path
		// each; the native replay runs with GOMAXPROCS set to the value of its path
		if len(in.replayEnv) == 0 {
			k := in.chooseAmong(4, "runtime-processor-count") + 1
			in.stubs["runtime.GOMAXPROCS/NumCPU: arbitrary processor count in 1..4 (one value per path)"] = true
			in.replayEnv = append(in.replayEnv, fmt.Sprintf("GOMAXPROCS=%d", k))
		}
		var k int
		fmt.Sscanf(in.replayEnv[0], "GOMAXPROCS=%d", &k)
		return []Value{in.ts.IntConst64(in.intSort(), int64(k))}
	case "(*sync.Pool).Get", "(*sync.Pool).Put":
		return in.poolOp(name, fn, args)
	case "time.Now", "time.Since", "(time.Time).Sub", "time.Sleep", "(time.Duration).Seconds", "(time.Duration).String":
		return in.timeStub(name, fn, args)
	}
	if fn.Name() == "init" {
		return nil
	}
	spkg := fn.Pkg
	if spkg == nil && fn.Origin() != nil {
		spkg = fn.Origin().Pkg // instantiation of a generic function
	}
	if spkg == nil && fn.Parent() != nil {
		spkg = fn.Parent().Pkg
	}
	if len(fn.Blocks) > 0 && spkg != nil && pureStdlib[spkg.Pkg.Path()] {
		// pure standard-library code with a Go body (sorting, slices, ...): executed like
		// repository code rather than refused, so that a change that starts using it is still decided
		in.stubs["stdlib body executed: "+spkg.Pkg.Path()] = true
		return in.callFunction(fn, args, nil)
	}
	panic(unsupported{"call to " + name + " (no body / outside the repository, no contract)"})
}

var errorStringType types.Type // set by the driver: *errors.errorString
var reflectTypeType types.Type = types.Typ[types.String]

// goValue: a concrete engine value as a Go value for formatting; symbolic parts become "<sym>"
func (in *Interp) goValue(v Value) interface{} {
	switch x := v.(type) {
	case StrV:
		return string(x)
	case *Term:
		if x.IsConst() {
			switch {
			case x.sort == SBool:
				return x.b
			case x.sort == SInt || x.sort.IsBV():
				return signedOrInt(x).Int64()
			case x.sort == SReal:
				f, _ := x.r.Float64()
				return f
			default:
				return x.f
			}
		}
		if x.sort.IsFP() {
			// documented contract of fmt for floats: NaN, +Inf, -Inf; anything finite is opaque
			ts := in.ts
			nan := in.fpPred("fisnan", x)
			inf := in.fpPred("fisinf", x)
			neg := in.fpPred("fisneg", x)
			cls := []struct {
				c *Term
				s string
			}{{nan, "NaN"}, {ts.And(inf, ts.Not(neg)), "+Inf"}, {ts.And(inf, neg), "-Inf"}, {ts.And(ts.Not(nan), ts.Not(inf)), "<finite>"}}
			var feas []int
			for i, k := range cls {
				if in.feasible(k.c) {
					feas = append(feas, i)
				}
			}
			if len(feas) == 0 {
				panic(pathDead{"sprint: infeasible"})
			}
			pick := feas[in.chooseAmong(len(feas), fmt.Sprintf("fmt-float-class#%d", x.id))]
			in.assume(cls[pick].c)
			return formatted(cls[pick].s)
		}
		return formatted("<sym>")
	case *IfaceV:
		if x.typ == nil {
			return nil
		}
		if x.typ == errorStringType {
			if p, ok := x.val.(*PtrV); ok && p != nil && p.obj != nil {
				return in.goValue(p.obj.slots[p.off])
			}
		}
		return in.goValue(x.val)
	case *SliceV:
		var out []interface{}
		for i := 0; i < x.len; i++ {
			if x.esz == 1 {
				out = append(out, in.goValue(x.obj.slots[x.off+i]))
			}
		}
		return out
	}
	return formatted("<v>")
}

// formatted prints itself verbatim under every verb
type formatted string

func (f formatted) Format(s fmt.State, verb rune) { fmt.Fprint(s, string(f)) }

func (in *Interp) sprint(name string, args []Value) Value {
	// formatting is environment; concrete operands are rendered exactly as fmt would
	var vals []interface{}
	start := 0
	format := ""
	if name != "fmt.Sprint" && name != "fmt.Sprintln" {
		if f, ok := args[0].(StrV); ok {
			format = string(f)
		}
		start = 1
	}
	for _, a := range args[start:] {
		if sl, ok := a.(*SliceV); ok {
			for i := 0; i < sl.len; i++ {
				vals = append(vals, in.goValue(sl.obj.slots[sl.off+i]))
			}
		}
	}
	switch name {
	case "fmt.Sprint":
		return StrV(fmt.Sprint(vals...))
	case "fmt.Sprintln":
		return StrV(fmt.Sprintln(vals...))
	}
	return StrV(fmt.Sprintf(format, vals...))
}

func (in *Interp) stringsCall(name string, args []Value) []Value {
	s0 := ""
	if sv, ok := args[0].(StrV); ok {
		s0 = string(sv)
	}
	switch name {
	case "strings.Split":
		parts := strings.Split(s0, string(args[1].(StrV)))
		o := in.newObject(types.Typ[types.String], len(parts), "split")
		for i, p := range parts {
			o.slots[i] = StrV(p)
		}
		return []Value{&SliceV{obj: o, len: len(parts), cap: len(parts), esz: 1}}
	case "strings.Contains":
		return []Value{in.ts.Bool(strings.Contains(s0, string(args[1].(StrV))))}
	case "strings.HasPrefix":
		return []Value{in.ts.Bool(strings.HasPrefix(s0, string(args[1].(StrV))))}
	case "strings.ToLower":
		return []Value{StrV(strings.ToLower(s0))}
	case "strings.ToUpper":
		return []Value{StrV(strings.ToUpper(s0))}
	case "strings.TrimSpace":
		return []Value{StrV(strings.TrimSpace(s0))}
	case "strings.LastIndex":
		return []Value{in.ts.IntConst64(in.intSort(), int64(strings.LastIndex(s0, string(args[1].(StrV)))))}
	case "strings.Index":
		return []Value{in.ts.IntConst64(in.intSort(), int64(strings.Index(s0, string(args[1].(StrV)))))}
	case "strings.HasSuffix":
		return []Value{in.ts.Bool(strings.HasSuffix(s0, string(args[1].(StrV))))}
	case "strings.TrimPrefix":
		return []Value{StrV(strings.TrimPrefix(s0, string(args[1].(StrV))))}
	case "strings.TrimSuffix":
		return []Value{StrV(strings.TrimSuffix(s0, string(args[1].(StrV))))}
	}
	sl := args[0].(*SliceV)
	var parts []string
	for i := 0; i < sl.len; i++ {
		parts = append(parts, string(sl.obj.slots[sl.off+i].(StrV)))
	}
	return []Value{StrV(strings.Join(parts, string(args[1].(StrV))))}
}

// ---- FP-mode helpers ----

func (in *Interp) fpUn(op string, a *Term) *Term {
	if a.IsConst() {
		switch op {
		case "fabs":
			return in.ts.FPConst(a.sort, math.Abs(a.f))
		case "floor":
			return in.ts.FPConst(a.sort, math.Floor(a.f))
		case "ceil":
			return in.ts.FPConst(a.sort, math.Ceil(a.f))
		case "fsqrt":
			return in.ts.FPConst(a.sort, math.Sqrt(a.f))
		}
	}
	return in.ts.mk(op, a.sort, a)
}
func (in *Interp) fpPred(op string, a *Term) *Term {
	if a.IsConst() {
		switch op {
		case "fisnan":
			return in.ts.Bool(math.IsNaN(a.f))
		case "fisinf":
			return in.ts.Bool(math.IsInf(a.f, 0))
		case "fisneg":
			return in.ts.Bool(math.Signbit(a.f))
		}
	}
	return in.ts.mk(op, SBool, a)
}

// Go's math.Min/Max: NaN if either is NaN; signed zeros ordered.  SMT fp.min/fp.max may
// return either zero for (+0,-0) and the non-NaN operand for NaN, so spell it out.
func (in *Interp) fpMinMax(op string, a, b *Term) *Term {
	ts := in.ts
	if a.IsConst() && b.IsConst() {
		if op == "fmin" {
			return ts.FPConst(a.sort, math.Min(a.f, b.f))
		}
		return ts.FPConst(a.sort, math.Max(a.f, b.f))
	}
	nan := ts.FPConst(a.sort, math.NaN())
	anyNaN := ts.Or(in.fpPred("fisnan", a), in.fpPred("fisnan", b))
	var pick *Term
	eq := ts.mk("feq", SBool, a, b)
	if op == "fmin" {
		// equal (incl. +0/-0): prefer the negative one
		pick = ts.Ite(eq, ts.Ite(in.fpPred("fisneg", a), a, b), ts.Ite(ts.FCmp("flt", a, b), a, b))
	} else {
		pick = ts.Ite(eq, ts.Ite(in.fpPred("fisneg", a), b, a), ts.Ite(ts.FCmp("flt", b, a), a, b))
	}
	return ts.Ite(anyNaN, nan, pick)
}

// ---- R-mode contracts for the mathematical library ----

func (in *Interp) rsqrt(x *Term) *Term {
	ts := in.ts
	if x.IsConst() && x.r.Sign() >= 0 {
		n0, d0 := x.r.Num(), x.r.Denom()
		sn0, sd0 := new(big.Int).Sqrt(n0), new(big.Int).Sqrt(d0)
		if !(new(big.Int).Mul(sn0, sn0).Cmp(n0) == 0 && new(big.Int).Mul(sd0, sd0).Cmp(d0) == 0) {
			return ts.FloatConst(SReal, math.Sqrt(ratF(x)))
		}
	}
	if x.IsConst() {
		// exact for perfect squares of rationals
		n, d := x.r.Num(), x.r.Denom()
		if n.Sign() >= 0 {
			sn, sd := new(big.Int).Sqrt(n), new(big.Int).Sqrt(d)
			if new(big.Int).Mul(sn, sn).Cmp(n) == 0 && new(big.Int).Mul(sd, sd).Cmp(d) == 0 {
				return ts.RealConst(new(big.Rat).SetFrac(sn, sd))
			}
		}
	}
	for _, c := range in.mathCalls["sqrt"] {
		if c.args[0] == x {
			return c.res
		}
	}
	y := ts.Fresh("sqrt", SReal)
	zero := in.realConst(0)
	in.axiom(ts.Implies(ts.FCmp("fle", zero, x), ts.And(ts.FCmp("fle", zero, y), ts.Eq(ts.FOp("fmul", y, y), x))))
	in.mathCalls["sqrt"] = append(in.mathCalls["sqrt"], mathCall{[]*Term{x}, y})
	return y
}

func (in *Interp) ipow(x *Term, n int) *Term {
	r := in.realConst(1)
	for i := 0; i < n; i++ {
		r = in.ts.FOp("fmul", r, x)
	}
	return r
}

func ratF(t *Term) float64 { f, _ := t.r.Float64(); return f }

func (in *Interp) rpow(x, e *Term) *Term {
	ts := in.ts
	if x.IsConst() && e.IsConst() {
		// constant arguments: exactly what the implementation computes (float64 library value)
		if v := math.Pow(ratF(x), ratF(e)); !math.IsNaN(v) && !math.IsInf(v, 0) {
			return ts.FloatConst(SReal, v)
		}
	}
	zero, onec := in.realConst(0), in.realConst(1)
	if e.IsConst() {
		p, q := new(big.Int).Set(e.r.Num()), new(big.Int).Set(e.r.Denom())
		if q.IsInt64() && p.IsInt64() && (q.Int64() == 1 || q.Int64() == 2 || q.Int64() == 4) && p.Int64() >= -16 && p.Int64() <= 16 {
			pi, qi := int(p.Int64()), int(q.Int64())
			if pi == 0 {
				return onec
			}
			root := x
			if qi == 2 {
				root = in.rsqrt(x)
			} else if qi == 4 {
				root = in.rsqrt(in.rsqrt(x))
			}
			ap := pi
			if ap < 0 {
				ap = -ap
			}
			pw := in.ipow(root, ap)
			if pi > 0 {
				return pw
			}
			return ts.FOp("fdiv", onec, pw)
		}
	}
	for _, c := range in.mathCalls["pow"] {
		if c.args[0] == x && c.args[1] == e {
			return c.res
		}
	}
	y := ts.Fresh("pow", SReal)
	le := func(a, b *Term) *Term { return ts.FCmp("fle", a, b) }
	lt := func(a, b *Term) *Term { return ts.FCmp("flt", a, b) }
	in.axiom(ts.Implies(le(zero, x), le(zero, y)))
	in.axiom(ts.Implies(lt(zero, x), lt(zero, y)))
	in.axiom(ts.Implies(ts.And(le(zero, x), le(x, onec), le(zero, e)), le(y, onec)))
	in.axiom(ts.Implies(ts.And(le(zero, x), le(x, onec), lt(zero, e), le(e, onec)), le(x, y)))
	in.axiom(ts.Implies(ts.And(le(onec, x), le(zero, e)), le(onec, y)))
	in.axiom(ts.Implies(ts.And(le(onec, x), le(onec, e)), le(x, y)))
	in.axiom(ts.Implies(ts.And(le(zero, x), le(x, onec), le(onec, e)), le(y, x)))
	in.axiom(ts.Implies(ts.And(le(onec, x), le(e, zero)), ts.And(lt(zero, y), le(y, onec))))
	in.axiom(ts.Implies(ts.And(lt(zero, x), le(x, onec), le(e, zero)), le(onec, y)))
	in.axiom(ts.Implies(ts.Eq(x, onec), ts.Eq(y, onec)))
	in.axiom(ts.Implies(ts.Eq(e, zero), ts.Eq(y, onec)))
	in.axiom(ts.Implies(ts.Eq(e, onec), ts.Eq(y, x)))
	in.axiom(ts.Implies(ts.And(ts.Eq(x, zero), lt(zero, e)), ts.Eq(y, zero)))
	if x.IsConst() && x.r.Cmp(big.NewRat(1, 1)) > 0 {
		// constant base b > 1, symbolic exponent: b^e is increasing in e; compare against a
		// quarter-step grid of exponents whose values are float64 library values widened by 1e-12
		b := ratF(x)
		for g := -4.0; g <= 4.0; g += 0.25 {
			v := math.Pow(b, g)
			gc := in.realConst(g)
			in.axiom(ts.Implies(le(e, gc), le(y, ts.FloatConst(SReal, v*(1+1e-12)))))
			in.axiom(ts.Implies(le(gc, e), le(ts.FloatConst(SReal, v*(1-1e-12)), y)))
		}
	}
	if e.IsConst() && e.r.Sign() > 0 && !e.r.IsInt() {
		// constant non-integer exponent: between the neighbouring integer powers
		if ef := ratF(e); ef < 8 {
			lo, hi := in.ipow(x, int(math.Floor(ef))), in.ipow(x, int(math.Ceil(ef)))
			in.axiom(ts.Implies(ts.And(le(zero, x), le(x, onec)), ts.And(le(hi, y), le(y, lo))))
			in.axiom(ts.Implies(le(onec, x), ts.And(le(lo, y), le(y, hi))))
		}
	}
	for _, c := range in.mathCalls["pow"] {
		x2, e2, y2 := c.args[0], c.args[1], c.res
		in.axiom(ts.Implies(ts.And(ts.Eq(x, x2), ts.Eq(e, e2)), ts.Eq(y, y2)))
		// monotone in the exponent for equal base >= 1 (decreasing for a base in (0,1])
		in.axiom(ts.Implies(ts.And(ts.Eq(x, x2), le(onec, x), le(e, e2)), le(y, y2)))
		in.axiom(ts.Implies(ts.And(ts.Eq(x, x2), le(onec, x), le(e2, e)), le(y2, y)))
		// strictly so for a base > 1
		in.axiom(ts.Implies(ts.And(ts.Eq(x, x2), lt(onec, x), lt(e, e2)), lt(y, y2)))
		in.axiom(ts.Implies(ts.And(ts.Eq(x, x2), lt(onec, x), lt(e2, e)), lt(y2, y)))
		in.axiom(ts.Implies(ts.And(ts.Eq(x, x2), lt(zero, x), le(x, onec), le(e, e2)), le(y2, y)))
		in.axiom(ts.Implies(ts.And(ts.Eq(x, x2), lt(zero, x), le(x, onec), le(e2, e)), le(y, y2)))
		// monotone in the base for equal positive exponent
		in.axiom(ts.Implies(ts.And(ts.Eq(e, e2), lt(zero, e), le(zero, x), le(x, x2)), le(y, y2)))
		in.axiom(ts.Implies(ts.And(ts.Eq(e, e2), lt(zero, e), le(zero, x2), le(x2, x)), le(y2, y)))
	}
	in.mathCalls["pow"] = append(in.mathCalls["pow"], mathCall{[]*Term{x, e}, y})
	return y
}

func (in *Interp) mathContract(f string, x *Term) *Term {
	ts := in.ts
	if x.IsConst() {
		var v float64
		switch f {
		case "exp":
			v = math.Exp(ratF(x))
		case "log":
			v = math.Log(ratF(x))
		case "log10":
			v = math.Log10(ratF(x))
		case "tanh":
			v = math.Tanh(ratF(x))
		case "cos":
			v = math.Cos(ratF(x))
		}
		if !math.IsNaN(v) && !math.IsInf(v, 0) {
			return ts.FloatConst(SReal, v)
		}
	}
	zero, onec := in.realConst(0), in.realConst(1)
	le := func(a, b *Term) *Term { return ts.FCmp("fle", a, b) }
	lt := func(a, b *Term) *Term { return ts.FCmp("flt", a, b) }
	for _, c := range in.mathCalls[f] {
		if c.args[0] == x {
			return c.res
		}
	}
	if x.IsConst() && x.r.Sign() == 0 {
		switch f {
		case "exp", "cos":
			return onec
		case "tanh":
			return zero
		}
	}
	if x.IsConst() && x.r.Cmp(big.NewRat(1, 1)) == 0 && (f == "log" || f == "log10") {
		return zero
	}
	y := ts.Fresh(f, SReal)
	strict := true
	switch f {
	case "exp":
		in.axiom(lt(zero, y))
		in.axiom(ts.Implies(le(x, zero), le(y, onec)))
		in.axiom(ts.Implies(le(zero, x), le(onec, y)))
		in.axiom(le(ts.FOp("fadd", onec, x), y))
		in.axiom(ts.Implies(ts.Eq(x, zero), ts.Eq(y, onec)))
	case "log":
		in.axiom(ts.Implies(ts.Eq(x, onec), ts.Eq(y, zero)))
		in.axiom(ts.Implies(lt(zero, x), le(y, ts.FOp("fsub", x, onec))))
		in.axiom(ts.Implies(lt(onec, x), lt(zero, y)))
		in.axiom(ts.Implies(ts.And(lt(zero, x), lt(x, onec)), lt(y, zero)))
		// tangent lines of the concave logarithm at c: log x <= x/c + log c - 1 (log c rounded up)
		for _, c := range []float64{8, 148, 22026} {
			in.axiom(ts.Implies(lt(zero, x), le(y, ts.FOp("fadd", ts.FOp("fdiv", x, in.realConst(c)), ts.FloatConst(SReal, math.Log(c)*(1+1e-12)-1)))))
		}
	case "log10":
		// tangent at 1: log10 x <= (x-1)/ln 10, constant rounded towards the sound side
		in.axiom(ts.Implies(le(onec, x), le(y, ts.FOp("fmul", ts.FOp("fsub", x, onec), in.realConst(0.4342945)))))
		in.axiom(ts.Implies(ts.And(lt(zero, x), le(x, onec)), le(y, ts.FOp("fmul", ts.FOp("fsub", x, onec), in.realConst(0.4342944)))))
		in.axiom(ts.Implies(ts.Eq(x, onec), ts.Eq(y, zero)))
		in.axiom(ts.Implies(lt(onec, x), lt(zero, y)))
		in.axiom(ts.Implies(ts.And(lt(zero, x), lt(x, onec)), lt(y, zero)))
		in.axiom(ts.Implies(ts.Eq(x, in.realConst(10)), ts.Eq(y, onec)))
	case "tanh":
		in.axiom(ts.And(lt(in.realConst(-1), y), lt(y, onec)))
		in.axiom(ts.Implies(le(zero, x), ts.And(le(zero, y), le(y, x))))
		in.axiom(ts.Implies(le(x, zero), ts.And(le(y, zero), le(x, y))))
		in.axiom(ts.Implies(ts.Eq(x, zero), ts.Eq(y, zero)))
		in.axiom(ts.Implies(lt(zero, x), lt(zero, y)))
	case "cos":
		in.axiom(ts.And(le(in.realConst(-1), y), le(y, onec)))
		strict = false
	}
	for _, c := range in.mathCalls[f] {
		x2, y2 := c.args[0], c.res
		in.axiom(ts.Implies(ts.Eq(x, x2), ts.Eq(y, y2)))
		if f != "cos" {
			dom := ts.True()
			if f == "log" || f == "log10" {
				dom = ts.And(lt(zero, x), lt(zero, x2))
			}
			if strict {
				in.axiom(ts.Implies(ts.And(dom, lt(x, x2)), lt(y, y2)))
				in.axiom(ts.Implies(ts.And(dom, lt(x2, x)), lt(y2, y)))
			}
			if f == "log" || f == "log10" {
				// concavity between two calls: f(a) <= f(b) + k (a-b)/b, k = 1 or 1/ln 10 rounded
				// towards the sound side for the sign of a-b
				kUp, kDn := 1.0, 1.0
				if f == "log10" {
					kUp, kDn = 0.43429449, 0.43429448
				}
				tang := func(a, fa, b, fb *Term) {
					d := ts.FOp("fdiv", ts.FOp("fsub", a, b), b)
					in.axiom(ts.Implies(ts.And(dom, le(b, a)), le(fa, ts.FOp("fadd", fb, ts.FOp("fmul", in.realConst(kUp), d)))))
					in.axiom(ts.Implies(ts.And(dom, le(a, b)), le(fa, ts.FOp("fadd", fb, ts.FOp("fmul", in.realConst(kDn), d)))))
				}
				tang(x, y, x2, y2)
				tang(x2, y2, x, y)
			}
		}
	}
	in.mathCalls[f] = append(in.mathCalls[f], mathCall{[]*Term{x}, y})
	return y
}

// ---- ghost lock machine for sync.(RW)Mutex ----

func (in *Interp) lockOp(name string, args []Value) []Value {
	p := args[0].(*PtrV)
	key := fmt.Sprintf("lock:%d:%d", p.obj.id, p.off)
	st := in.lockState[key] // 0 free, -1 write-locked, n>0 readers
	switch {
	case strings.HasSuffix(name, ".Lock"):
		if st != 0 {
			in.obligation("lock-discipline:Lock-while-held", "implicit", in.ts.False())
		}
		in.lockState[key] = -1
		in.setHeld(key, 2)
	case strings.HasSuffix(name, ".Unlock"):
		if st != -1 {
			in.obligation("lock-discipline:Unlock-not-held", "implicit", in.ts.False())
		}
		in.lockState[key] = 0
		in.setHeld(key, 0)
	case strings.HasSuffix(name, ".RLock"):
		if st < 0 {
			in.obligation("lock-discipline:RLock-while-write-held", "implicit", in.ts.False())
		}
		in.lockState[key] = st + 1
		in.setHeld(key, 1)
	case strings.HasSuffix(name, ".RUnlock"):
		if st <= 0 {
			in.obligation("lock-discipline:RUnlock-not-held", "implicit", in.ts.False())
		}
		in.lockState[key] = st - 1
		in.setHeld(key, 0)
	}
	return nil
}

func (in *Interp) timeStub(name string, fn *ssa.Function, args []Value) []Value {
	res := fn.Signature.Results()
	var out []Value
	for i := 0; i < res.Len(); i++ {
		out = append(out, in.zero(res.At(i).Type()))
	}
	return out
}

// findRootSummary replaces fn.FindRoot by the contract that the C18 obligations establish for
// it (result inside the bracket, returned value is f at the returned point) plus the stated
// assumption that the iteration budget suffices (|f(x)| < tolerance).  The precondition
// f(min) <= 0 <= f(max) is an obligation here (the real code panics otherwise).
func (in *Interp) findRootSummary(args []Value, c *ssa.CallCommon, fr *Frame) []Value {
	ts := in.ts
	f := args[0]
	minX, maxX, tol := args[3].(*Term), args[4].(*Term), args[5].(*Term)
	call := func(x *Term) *Term { return in.invoke(f, []Value{x}, nil, fr)[0].(*Term) }
	zero := in.realConst(0)
	fmin, fmax := call(minX), call(maxX)
	in.implicitFail("FindRoot-invalid-range", ts.And(ts.FCmp("fle", fmin, zero), ts.FCmp("fle", zero, fmax)))
	// the same bracket on the same function (fingerprinted by its values at the ends) yields the
	// same root: FindRoot is deterministic.  Congruence (equal arguments => equal result) is
	// semantic, so syntactically different but equal brackets give the same root.
	x := in.ackermannNamedX("findroot", []*Term{minX, maxX, fmin, fmax}, false, false)
	in.assume(ts.And(ts.FCmp("fle", minX, x), ts.FCmp("fle", x, maxX)))
	d := call(x)
	in.assume(ts.FCmp("flt", in.fabs(d), tol))
	in.notes = appendNote(in.notes, "fn.FindRoot summarised by its contract: minX <= x <= maxX, delta = f(x), |delta| < tolerance (iteration budget assumed sufficient)")
	return []Value{x, d}
}

// ---- sync.Pool by its documented contract ----
// Get returns ANY item previously Put and not yet handed out again, or the result of New (the
// runtime may drop items at any time): the choice is a fork.  Items come back exactly as they
// were Put - a pooled buffer that is not cleared by its user keeps its old contents.
func (in *Interp) poolOp(name string, fn *ssa.Function, args []Value) []Value {
	p, _ := args[0].(*PtrV)
	if p == nil || p.obj == nil {
		in.implicitFail("nil-deref", in.ts.False())
		panic(pathDead{"nil *sync.Pool"})
	}
	if in.pools == nil {
		in.pools = map[string][]Value{}
	}
	key := fmt.Sprintf("%d:%d", p.obj.id, p.off)
	in.stubs["sync.Pool: Get returns any item previously Put (fork) or New()"] = true
	if strings.HasSuffix(name, ".Put") {
		in.pools[key] = append(in.pools[key], args[1])
		return nil
	}
	items := in.pools[key]
	pick := in.chooseAmong(len(items)+1, "sync-pool-get:"+key)
	if pick > 0 {
		it := items[pick-1]
		in.pools[key] = append(append([]Value{}, items[:pick-1]...), items[pick:]...)
		return []Value{it}
	}
	st := fn.Signature.Recv().Type().Underlying().(*types.Pointer).Elem().Underlying().(*types.Struct)
	for i := 0; i < st.NumFields(); i++ {
		if st.Field(i).Name() == "New" {
			nv := in.readSlot(p.obj, p.off+in.fieldOff(st, i))
			if cl, ok := nv.(*ClosureV); ok && cl != nil {
				return in.invoke(cl, nil, nil, nil)
			}
			return []Value{&IfaceV{}}
		}
	}
	return []Value{&IfaceV{}}
}

var pureStdlib = map[string]bool{"sort": true, "slices": true, "cmp": true, "math/bits": true, "container/heap": true, "container/list": true, "internal/bytealg": false}
