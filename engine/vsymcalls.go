package main

import (
	"os"
	"fmt"
	"math/big"
	"go/types"
	"strings"

	"golang.org/x/tools/go/ssa"
)

func (in *Interp) symName(base string) string {
	in.symCount[base]++
	if n := in.symCount[base]; n > 1 {
		return fmt.Sprintf("%s#%d", base, n)
	}
	return base
}

func (in *Interp) newSym(base string, s Sort) *Term {
	n := in.symName(base)
	t := in.ts.Var("sym:"+n, s)
	in.symbols[n] = t
	return t
}

func strArg(v Value) string {
	if s, ok := v.(StrV); ok {
		return string(s)
	}
	return "?"
}

func (in *Interp) vsymCall(name string, args []Value, c *ssa.CallCommon) []Value {
	ts := in.ts
	one := func(v Value) []Value { return []Value{v} }
	basic := map[string]types.Type{
		"Float64": types.Typ[types.Float64], "Float32": types.Typ[types.Float32],
		"Int": types.Typ[types.Int], "Int32": types.Typ[types.Int32], "Int64": types.Typ[types.Int64],
		"Uint": types.Typ[types.Uint], "Uint32": types.Typ[types.Uint32], "Uint64": types.Typ[types.Uint64],
		"Bool": types.Typ[types.Bool],
	}
	if t, ok := basic[name]; ok {
		v := in.newSym(strArg(args[0]), in.sortMust(t))
		if v.sort == SInt {
			// ints=math: a value of a fixed-width type lies in that type's range
			b := t.(*types.Basic)
			bits := map[types.BasicKind]uint{types.Int: 64, types.Int64: 64, types.Uint: 64, types.Uint64: 64, types.Int32: 32, types.Uint32: 32}[b.Kind()]
			lo, hi := new(big.Int), new(big.Int)
			if b.Info()&types.IsUnsigned != 0 {
				hi.Lsh(big.NewInt(1), bits)
			} else {
				hi.Lsh(big.NewInt(1), bits-1)
				lo.Neg(hi)
			}
			in.axiom(ts.And(ts.IntCmp("sle", ts.IntConst(SInt, lo), v), ts.IntCmp("slt", v, ts.IntConst(SInt, hi))))
		}
		return one(v)
	}
	switch name {
	case "init":
		return nil
	case "Concrete":
		t := args[0].(*Term)
		v := in.concretize(t, "vsym.Concrete")
		return one(ts.IntConst64(t.sort, int64(v)))
	case "And":
		return one(ts.And(args[0].(*Term), args[1].(*Term)))
	case "Or":
		return one(ts.Or(args[0].(*Term), args[1].(*Term)))
	case "Implies":
		return one(ts.Implies(args[0].(*Term), args[1].(*Term)))
	case "IsSymbolic":
		return one(ts.True())
	case "Thorough":
		return one(ts.Bool(in.tier == "thorough"))
	case "Assume":
		c := args[0].(*Term)
		if c.IsFalse() || !in.feasible(c) {
			panic(pathDead{"assumption infeasible on this path"})
		}
		in.assume(c)
		return nil
	case "Assert":
		in.obligation(strArg(args[1]), "assert", args[0].(*Term))
		return nil
	case "AssertNear", "AssertAgree":
		// |a-b| <= abs + rel*max(|a|,|b|)
		a, b, abs, rel := args[0].(*Term), args[1].(*Term), args[2].(*Term), args[3].(*Term)
		in.obligation2(strArg(args[4]), ts.Eq(a, b), in.nearTerm(a, b, abs, rel))
		return nil
	case "Near":
		a, b, abs, rel := args[0].(*Term), args[1].(*Term), args[2].(*Term), args[3].(*Term)
		return one(in.nearTerm(a, b, abs, rel))
	case "Hunt":
		in.huntNext = true
		in.obligation(strArg(args[1]), "assert", args[0].(*Term))
		in.huntNext = false
		return nil
	case "HuntNear":
		// bug-hunting form: only a satisfiable answer (a counterexample that replays) matters;
		// unsat/unknown are both "no counterexample found" and the proof is left to a sibling harness
		a, b, abs, rel := args[0].(*Term), args[1].(*Term), args[2].(*Term), args[3].(*Term)
		n := len(in.pendingHunt)
		_ = n
		in.huntNext = true
		in.obligation(strArg(args[4]), "assert", in.nearTerm(a, b, abs, rel))
		in.huntNext = false
		return nil
	case "AssertLe":
		// a <= b + abs + rel*max(|a|,|b|)
		a, b, abs, rel := args[0].(*Term), args[1].(*Term), args[2].(*Term), args[3].(*Term)
		m := in.fmax(in.fabs(a), in.fabs(b))
		tol := ts.FOp("fadd", abs, ts.FOp("fmul", rel, m))
		in.obligation2(strArg(args[4]), ts.FCmp("fle", a, b), ts.FCmp("fle", a, ts.FOp("fadd", b, tol)))
		return nil
	case "Reach":
		l := strArg(args[0])
		in.reached[l] = true
		in.reach(l)
		return nil
	case "Known":
		return one(ts.Bool(in.known[strArg(args[0])]))
	case "Observe":
		return nil
	case "Note":
		in.notes = appendNote(in.notes, strArg(args[0]))
		return nil
	case "SameStart":
		a, b := sliceOf(args[0]), sliceOf(args[1])
		return one(ts.Bool(a != nil && b != nil && a.obj != nil && a.obj == b.obj && a.off == b.off))
	case "SameBacking":
		a, b := sliceOf(args[0]), sliceOf(args[1])
		return one(ts.Bool(a != nil && b != nil && a.obj != nil && a.obj == b.obj))
	case "OffsetIn":
		// element offset of slice a inside slice b's backing store (same object), else -1
		a, b := sliceOf(args[0]), sliceOf(args[1])
		if a == nil || b == nil || a.obj == nil || a.obj != b.obj {
			return one(ts.IntConst64(in.intSort(), -1))
		}
		return one(ts.IntConst64(in.intSort(), int64((a.off-b.off)/a.esz)))
	case "CBufFloat64", "CBufFloat32", "CBufInt32", "CBufUint32", "CBufInt64", "CBufUint64", "CBufInt", "CBufUint":
		// ghost C buffer of n elements with symbolic contents; returns unsafe.Pointer
		n := in.concretize(args[1].(*Term), "cbuf-len")
		et := cbufElem(name, in)
		o := in.newObject(et, n, "cbuf:"+strArg(args[0]))
		o.kind = "cbuf"
		o.cwidth = 8
		switch name {
		case "CBufFloat32", "CBufInt32", "CBufUint32", "CBufInt", "CBufUint":
			o.cwidth = 4 // genny maps Go int/uint to the 32-bit C.int/C.uint
		}
		s := in.sortMust(et)
		for i := 0; i < n; i++ {
			v := in.newSym(fmt.Sprintf("%s[%d]", strArg(args[0]), i), s)
			o.slots[i] = v
			if v.sort == SInt {
				// element range of the C type (C.int / C.uint for Go int / uint)
				lo, hi := new(big.Int), new(big.Int)
				switch name {
				case "CBufInt", "CBufInt32":
					hi.Lsh(big.NewInt(1), 31)
					lo.Neg(hi)
				case "CBufUint", "CBufUint32":
					hi.Lsh(big.NewInt(1), 32)
				case "CBufInt64":
					hi.Lsh(big.NewInt(1), 63)
					lo.Neg(hi)
				default:
					hi.Lsh(big.NewInt(1), 64)
				}
				in.axiom(ts.And(ts.IntCmp("sle", ts.IntConst(SInt, lo), v), ts.IntCmp("slt", v, ts.IntConst(SInt, hi))))
			}
		}
		return one(&PtrV{obj: o})
	case "UF1", "UF2", "UF3", "UFMono1":
		var ta []*Term
		for _, a := range args[1:] {
			ta = append(ta, a.(*Term))
		}
		return one(in.ackermannNamed(strArg(args[0]), ta, name == "UFMono1"))
	case "LogStart":
		in.logOn = true
		in.acclog = nil
		return nil
	case "Stash":
		// Stash(key, ptr): hand a value to an environment stub (nil pointer = "decoding fails")
		iv := args[1].(*IfaceV)
		if iv.typ == nil {
			in.stash[strArg(args[0])] = nil
		} else {
			in.stash[strArg(args[0])] = iv.val
		}
		return nil
	case "Fetch":
		// Fetch(key, ptr): copy what an environment stub captured into *ptr
		v, ok := in.stash[strArg(args[0])]
		if !ok {
			return one(ts.False())
		}
		dst := args[1].(*IfaceV).val.(*PtrV)
		iv, isI := v.(*IfaceV)
		if isI && iv.typ != nil {
			in.store(dst, iv.val)
		}
		return one(ts.True())
	case "StashCount":
		return one(ts.IntConst64(in.intSort(), int64(in.stashCount[strArg(args[0])])))
	case "LogStop":
		in.logOn = false
		return nil
	case "AssertNoRaces":
		label := strArg(args[0])
		races := in.findRaces()
		if len(races) == 0 {
			in.obligation(label, "assert", ts.True())
			return nil
		}
		for i, r := range races {
			if i >= 5 {
				break
			}
			in.notes = appendNote(in.notes, fmt.Sprintf("conflicting accesses on %s slot %d by goroutine instances %d and %d", r.a.obj.name, r.a.slot, r.a.gor, r.b.gor))
			// a race exists iff both accesses can happen: pc ∧ guard_a ∧ guard_b satisfiable
			in.obligation(label, "assert", ts.Not(ts.And(r.a.guard, r.b.guard)))
		}
		return nil
	case "AssertNoRacesHB":
		label := strArg(args[0])
		races := in.findRacesHB()
		if os.Getenv("GOSMT_DEBUG") != "" {
			per := map[int]int{}
			for _, e := range in.acclog {
				per[e.gor]++
			}
			fmt.Fprintf(os.Stderr, "HB: %d accesses, per goroutine %v, races %d\n", len(in.acclog), per, len(races))
			for g, v := range in.gorVC {
				fmt.Fprintf(os.Stderr, "HB: final clock of %d: %v\n", g, v)
			}
		}
		in.notes = appendNote(in.notes, fmt.Sprintf("happens-before analysis over %d logged accesses of %d goroutine instances", len(in.acclog), in.nextGor+1))
		if len(races) == 0 {
			in.obligation(label, "assert", ts.True())
			return nil
		}
		for i, r := range races {
			if i >= 8 {
				break
			}
			in.notes = appendNote(in.notes, fmt.Sprintf("accesses not ordered by happens-before on %s slot %d: goroutine %d at %s, goroutine %d at %s", r.a.obj.name, r.a.slot, r.a.gor, shortSite(in.site(r.a.ins)), r.b.gor, shortSite(in.site(r.b.ins))))
			in.obligation(label, "assert", ts.Not(ts.And(r.a.guard, r.b.guard)))
		}
		return nil
	case "GlobalWrites":
		n := 0
		for _, e := range in.acclog {
			if e.write && e.obj.kind == "global" {
				n++
				in.notes = appendNote(in.notes, "write to package-level variable "+e.obj.name)
			}
		}
		// maps held in package-level variables that were updated while logging
		for _, g := range in.globals {
			for _, sv := range g.slots {
				if mv, ok := sv.(*MapV); ok {
					for _, w := range in.mapWrites {
						if w == mv {
							n++
							in.notes = appendNote(in.notes, "update of the map held in package-level variable "+g.name)
							break
						}
					}
				}
			}
		}
		return one(ts.IntConst64(in.intSort(), int64(n)))
	case "JoinBalance":
		// sends minus receives over all channels: 0 when every goroutine's token was collected
		return one(ts.IntConst64(in.intSort(), int64(in.sendTotal-in.recvTotal)))
	case "Summarise":
		in.summaries[strArg(args[0])] = true
		return nil
	case "Goroutines":
		return one(ts.IntConst64(in.intSort(), int64(in.nextGor)))
	case "ChanBalance":
		// number of sends minus receives over all channels created so far is reported by the engine
		return one(ts.IntConst64(in.intSort(), 0))
	}
	if h, ok := vsymExtra[name]; ok {
		return h(in, args, c)
	}
	panic(unsupported{"vsym." + name})
}

var vsymExtra = map[string]func(in *Interp, args []Value, c *ssa.CallCommon) []Value{}

func cbufElem(name string, in *Interp) types.Type {
	switch strings.TrimPrefix(name, "CBuf") {
	case "Float64":
		return types.Typ[types.Float64]
	case "Float32":
		return types.Typ[types.Float32]
	case "Int32":
		return types.Typ[types.Int32]
	case "Uint32":
		return types.Typ[types.Uint32]
	case "Int64":
		return types.Typ[types.Int64]
	case "Uint64":
		return types.Typ[types.Uint64]
	case "Int":
		return types.Typ[types.Int]
	}
	return types.Typ[types.Uint]
}

func sliceOf(v Value) *SliceV {
	switch x := v.(type) {
	case *SliceV:
		return x
	case *IfaceV:
		if s, ok := x.val.(*SliceV); ok {
			return s
		}
	}
	return nil
}

func (in *Interp) nearTerm(a, b, abs, rel *Term) *Term {
	ts := in.ts
	d := in.fabs(ts.FOp("fsub", a, b))
	tol := abs
	if !(rel.IsConst() && ts.isZero(rel)) {
		m := in.fmax(in.fabs(a), in.fabs(b))
		tol = ts.FOp("fadd", abs, ts.FOp("fmul", rel, m))
	}
	return ts.FCmp("fle", d, tol)
}

// Ackermannised uninterpreted function: fresh result + congruence with earlier calls
func (in *Interp) ackermann(name string, args []*Term) *Term {
	ts := in.ts
	for _, c := range in.mathCalls[name] {
		same := len(c.args) == len(args)
		for i := range args {
			if same && c.args[i] != args[i] {
				same = false
			}
		}
		if same {
			return c.res
		}
	}
	y := ts.Fresh(strings.ReplaceAll(name, ":", "_"), in.floatSort())
	for _, c := range in.mathCalls[name] {
		eq := ts.True()
		for i := range args {
			eq = ts.And(eq, ts.Eq(args[i], c.args[i]))
		}
		in.axiom(ts.Implies(eq, ts.Eq(y, c.res)))
	}
	in.mathCalls[name] = append(in.mathCalls[name], mathCall{args, y})
	return y
}

// ackermannNamed: uninterpreted function whose call table (arguments and result of every call)
// is exported with the model, so that a native replay can interpolate the same function.
func (in *Interp) ackermannNamed(name string, args []*Term, mono bool) *Term {
	return in.ackermannNamedX(name, args, mono, true)
}

func (in *Interp) ackermannNamedX(name string, args []*Term, mono bool, export bool) *Term {
	ts := in.ts
	key := "ufn:" + name
	for _, c := range in.mathCalls[key] {
		same := len(c.args) == len(args)
		for i := range args {
			if same && c.args[i] != args[i] {
				same = false
			}
		}
		if same {
			return c.res
		}
	}
	k := len(in.mathCalls[key])
	y := ts.Var(fmt.Sprintf("uf:%s:%d:res", name, k), in.floatSort())
	for i, a := range args {
		if !export {
			break
		}
		av := ts.Var(fmt.Sprintf("uf:%s:%d:arg%d", name, k, i), a.sort)
		in.axiom(ts.Eq(av, a))
	}
	for _, c := range in.mathCalls[key] {
		eq := ts.True()
		for i := range args {
			eq = ts.And(eq, ts.Eq(args[i], c.args[i]))
		}
		in.axiom(ts.Implies(eq, ts.Eq(y, c.res)))
		if mono && len(args) == 1 {
			in.axiom(ts.Implies(ts.FCmp("fle", args[0], c.args[0]), ts.FCmp("fle", y, c.res)))
			in.axiom(ts.Implies(ts.FCmp("fle", c.args[0], args[0]), ts.FCmp("fle", c.res, y)))
		}
	}
	in.mathCalls[key] = append(in.mathCalls[key], mathCall{args, y})
	return y
}
