package main

import (
	"fmt"
	"go/types"
	"math/big"

	"golang.org/x/tools/go/ssa"
)

// ---- configuration of one harness run ----

type Config struct {
	Ints        string // "bv" | "int"
	Floats      string // "real" | "fp"
	Unwind      int
	FeasMs      int
	ObligMs     int
	MaxConcrete int // max values when concretising a symbolic integer
	PruneFrom   int // loop-exit branches are pruned by the solver from this iteration on
	Cut         int // >0: a symbolic loop is assumed to exit after this many iterations (stated bound)
	PruneAll    bool // every symbolic branch is checked for feasibility of both arms before merging
	ConcF2I     bool // a symbolic float->int conversion is concretised by forking over its feasible values
}

type jent struct {
	obj  *Object
	slot int
	old  Value
}

type funcInfo struct {
	reg   map[ssa.Value]int
	nregs int
	ipdom map[*ssa.BasicBlock]*ssa.BasicBlock // nil entry => exit
	scc      map[*ssa.BasicBlock]int // some loop the block is in (0 if none)
	prune    map[*ssa.BasicBlock]bool
	backedge map[[2]int]bool
	exitSucc map[*ssa.BasicBlock]int // for a branch that leaves a loop on one side: that side
	exitHeader map[*ssa.BasicBlock]*ssa.BasicBlock
	canReturn  map[*ssa.BasicBlock]bool
}

type Frame struct {
	fn     *ssa.Function
	info   *funcInfo
	env    []Value
	defers []deferred
	visits map[*ssa.BasicBlock]int
	symLoop map[*ssa.BasicBlock]bool // loop headers whose exit was decided by a symbolic condition since the loop was entered
	gor    int
}

type deferred struct {
	fn   Value
	args []Value
	call *ssa.CallCommon
}

type pathDead struct{ why string }
type unsupported struct{ what string }

// ---- types -> sorts / layout ----

func (in *Interp) sortOf(t types.Type) (Sort, bool) {
	b, ok := t.Underlying().(*types.Basic)
	if !ok {
		return 0, false
	}
	switch {
	case b.Info()&types.IsBoolean != 0:
		return SBool, true
	case b.Info()&types.IsInteger != 0:
		if in.cfg.Ints == "int" {
			return SInt, true
		}
		switch b.Kind() {
		case types.Int8, types.Uint8:
			return SBV8, true
		case types.Int16, types.Uint16:
			return SBV16, true
		case types.Int32, types.Uint32:
			return SBV32, true
		}
		return SBV64, true
	case b.Info()&types.IsFloat != 0:
		if in.cfg.Floats == "fp" {
			if b.Kind() == types.Float32 {
				return SFP32, true
			}
			return SFP64, true
		}
		return SReal, true
	}
	return 0, false
}

func isUnsigned(t types.Type) bool {
	b, ok := t.Underlying().(*types.Basic)
	return ok && b.Info()&types.IsUnsigned != 0
}

func isFloat(t types.Type) bool {
	b, ok := t.Underlying().(*types.Basic)
	return ok && b.Info()&types.IsFloat != 0
}
func isInteger(t types.Type) bool {
	b, ok := t.Underlying().(*types.Basic)
	return ok && b.Info()&types.IsInteger != 0
}
func isString(t types.Type) bool {
	b, ok := t.Underlying().(*types.Basic)
	return ok && b.Info()&types.IsString != 0
}

func (in *Interp) nslots(t types.Type) int {
	if n, ok := in.slotCache[t]; ok {
		return n
	}
	n := 1
	switch u := t.Underlying().(type) {
	case *types.Struct:
		n = 0
		for i := 0; i < u.NumFields(); i++ {
			n += in.nslots(u.Field(i).Type())
		}
	case *types.Array:
		n = int(u.Len()) * in.nslots(u.Elem())
		if u.Len() > 1<<20 {
			n = 0 // ghost arrays (*[1<<30]T): never materialised
		}
	}
	in.slotCache[t] = n
	return n
}

func (in *Interp) fieldOff(st *types.Struct, idx int) int {
	off := 0
	for i := 0; i < idx; i++ {
		off += in.nslots(st.Field(i).Type())
	}
	return off
}

func (in *Interp) zero(t types.Type) Value {
	switch u := t.Underlying().(type) {
	case *types.Basic:
		if isString(t) {
			return StrV("")
		}
		if u.Kind() == types.UnsafePointer {
			return (*PtrV)(nil)
		}
		s, ok := in.sortOf(t)
		if !ok {
			panic(unsupported{"zero of " + t.String()})
		}
		switch {
		case s == SBool:
			return in.ts.False()
		case s == SInt || s.IsBV():
			return in.ts.IntConst64(s, 0)
		default:
			return in.ts.FloatConst(s, 0)
		}
	case *types.Pointer:
		return (*PtrV)(nil)
	case *types.Slice:
		return &SliceV{esz: in.nslots(u.Elem())}
	case *types.Map:
		return &MapV{nilm: true}
	case *types.Chan:
		return (*ChanV)(nil)
	case *types.Signature:
		return (*ClosureV)(nil)
	case *types.Interface:
		return &IfaceV{}
	case *types.Struct:
		sv := &StructV{}
		for i := 0; i < u.NumFields(); i++ {
			sv.fields = append(sv.fields, in.zero(u.Field(i).Type()))
		}
		return sv
	case *types.Array:
		av := &ArrayV{}
		for i := 0; i < int(u.Len()); i++ {
			av.elems = append(av.elems, in.zero(u.Elem()))
		}
		return av
	case *types.Tuple:
		tv := TupleV{}
		for i := 0; i < u.Len(); i++ {
			tv = append(tv, in.zero(u.At(i).Type()))
		}
		return tv
	}
	panic(unsupported{"zero of " + t.String()})
}

// flatten an aggregate value into slots
func (in *Interp) flatten(v Value, out []Value) []Value {
	switch x := v.(type) {
	case *StructV:
		for _, f := range x.fields {
			out = in.flatten(f, out)
		}
		return out
	case *ArrayV:
		for _, f := range x.elems {
			out = in.flatten(f, out)
		}
		return out
	}
	return append(out, v)
}

// rebuild a value of type t from slots starting at *pos
func (in *Interp) unflatten(t types.Type, slots []Value, pos *int) Value {
	switch u := t.Underlying().(type) {
	case *types.Struct:
		sv := &StructV{}
		for i := 0; i < u.NumFields(); i++ {
			sv.fields = append(sv.fields, in.unflatten(u.Field(i).Type(), slots, pos))
		}
		return sv
	case *types.Array:
		av := &ArrayV{}
		for i := 0; i < int(u.Len()); i++ {
			av.elems = append(av.elems, in.unflatten(u.Elem(), slots, pos))
		}
		return av
	}
	v := slots[*pos]
	*pos++
	return v
}

// ---- memory ----

func (in *Interp) newObject(t types.Type, n int, name string) *Object {
	o := &Object{id: in.nextObj, typ: t, name: name, gor: in.curGor}
	in.nextObj++
	if n > 0 {
		zs := in.flatten(in.zero(t), nil)
		o.slots = make([]Value, 0, n*len(zs))
		for i := 0; i < n; i++ {
			o.slots = append(o.slots, zs...)
		}
	}
	return o
}

func (in *Interp) writeSlot(o *Object, slot int, v Value) {
	if slot < 0 || slot >= len(o.slots) {
		panic(pathDead{fmt.Sprintf("internal: slot %d out of object %d (%d slots)", slot, o.id, len(o.slots))})
	}
	if o.kind == "rodata" {
		panic(unsupported{"write to read-only data"})
	}
	in.journal = append(in.journal, jent{o, slot, o.slots[slot]})
	o.slots[slot] = v
	if in.logOn {
		in.logAccess(o, slot, true)
	}
}

func (in *Interp) readSlot(o *Object, slot int) Value {
	if slot < 0 || slot >= len(o.slots) {
		panic(pathDead{fmt.Sprintf("internal: slot %d out of object %d (%d slots)", slot, o.id, len(o.slots))})
	}
	if in.logOn {
		in.logAccess(o, slot, false)
	}
	v := o.slots[slot]
	if p, ok := v.(PoisonV); ok {
		panic(mergeAbort{p.k})
	}
	return v
}

func (in *Interp) rollback(mark int) {
	for i := len(in.journal) - 1; i >= mark; i-- {
		e := in.journal[i]
		e.obj.slots[e.slot] = e.old
	}
	in.journal = in.journal[:mark]
}

type slotKey struct {
	obj  *Object
	slot int
}
type slotChange struct {
	orig, final Value
}

// capture the net writes since mark
func (in *Interp) capture(mark int) (map[slotKey]slotChange, []slotKey) {
	m := map[slotKey]slotChange{}
	var order []slotKey
	for i := mark; i < len(in.journal); i++ {
		e := in.journal[i]
		k := slotKey{e.obj, e.slot}
		if _, ok := m[k]; !ok {
			m[k] = slotChange{orig: e.old}
			order = append(order, k)
		}
	}
	for k, c := range m {
		c.final = k.obj.slots[k.slot]
		m[k] = c
	}
	return m, order
}

func (in *Interp) load(p *PtrV, t types.Type) Value {
	if p == nil || p.obj == nil {
		in.implicitFail("nil-deref", in.ts.False())
		panic(pathDead{"nil dereference"})
	}
	n := in.nslots(t)
	if p.sym == nil {
		if n == 1 {
			if _, isAgg := t.Underlying().(*types.Struct); !isAgg {
				if _, isArr := t.Underlying().(*types.Array); !isArr {
					return in.readSlot(p.obj, p.off)
				}
			}
		}
		if p.off+n > len(p.obj.slots) {
			in.implicitFail("load-out-of-object", in.ts.False())
			panic(pathDead{"load outside object"})
		}
		vals := make([]Value, n)
		for i := 0; i < n; i++ {
			vals[i] = in.readSlot(p.obj, p.off+i)
		}
		pos := 0
		return in.unflatten(t, vals, &pos)
	}
	// symbolic index: ite chain per slot
	vals := make([]Value, n)
	for i := 0; i < n; i++ {
		var acc Value
		for k := p.count - 1; k >= 0; k-- {
			v := in.readSlot(p.obj, p.off+k*p.stride+i)
			if acc == nil {
				acc = v
				continue
			}
			c := in.ts.Eq(p.sym, in.ts.IntConst64(p.sym.sort, int64(k)))
			acc = in.mergeValue(c, v, acc, -1)
		}
		if pz, ok := acc.(PoisonV); ok {
			_ = pz
			// cannot express as ite: concretise the index
			k := in.concretize(p.sym, "load-index")
			q := &PtrV{obj: p.obj, off: p.off + k*p.stride}
			return in.load(q, t)
		}
		vals[i] = acc
	}
	pos := 0
	return in.unflatten(t, vals, &pos)
}

func (in *Interp) store(p *PtrV, v Value) {
	if p == nil || p.obj == nil {
		in.implicitFail("nil-deref", in.ts.False())
		panic(pathDead{"nil dereference"})
	}
	vals := in.flatten(v, nil)
	if p.sym == nil {
		if p.off+len(vals) > len(p.obj.slots) {
			in.implicitFail("store-out-of-object", in.ts.False())
			panic(pathDead{"store outside object"})
		}
		for i, x := range vals {
			in.writeSlot(p.obj, p.off+i, x)
		}
		return
	}
	for k := 0; k < p.count; k++ {
		c := in.ts.Eq(p.sym, in.ts.IntConst64(p.sym.sort, int64(k)))
		for i, x := range vals {
			slot := p.off + k*p.stride + i
			old := p.obj.slots[slot]
			nv := in.mergeValue(c, x, old, -1)
			if _, ok := nv.(PoisonV); ok {
				kk := in.concretize(p.sym, "store-index")
				in.store(&PtrV{obj: p.obj, off: p.off + kk*p.stride}, v)
				return
			}
			in.writeSlot(p.obj, slot, nv)
		}
	}
}

// mergeValue builds ite(c,a,b) for values; PoisonV{k} when not expressible
func (in *Interp) mergeValue(c *Term, a, b Value, k int) Value {
	if equalValue(a, b) {
		return a
	}
	switch x := a.(type) {
	case *Term:
		if y, ok := b.(*Term); ok && x.sort == y.sort {
			return in.ts.Ite(c, x, y)
		}
	case *StructV:
		if y, ok := b.(*StructV); ok && len(x.fields) == len(y.fields) {
			r := &StructV{fields: make([]Value, len(x.fields))}
			for i := range x.fields {
				r.fields[i] = in.mergeValue(c, x.fields[i], y.fields[i], k)
			}
			return r
		}
	case *ArrayV:
		if y, ok := b.(*ArrayV); ok && len(x.elems) == len(y.elems) {
			r := &ArrayV{elems: make([]Value, len(x.elems))}
			for i := range x.elems {
				r.elems[i] = in.mergeValue(c, x.elems[i], y.elems[i], k)
			}
			return r
		}
	case TupleV:
		if y, ok := b.(TupleV); ok && len(x) == len(y) {
			r := make(TupleV, len(x))
			for i := range x {
				r[i] = in.mergeValue(c, x[i], y[i], k)
			}
			return r
		}
	case *IfaceV:
		if y, ok := b.(*IfaceV); ok && x.typ != nil && y.typ != nil && types.Identical(x.typ, y.typ) {
			return &IfaceV{typ: x.typ, val: in.mergeValue(c, x.val, y.val, k)}
		}
	case *PtrV:
		// same object, same stride shape, differing concrete offsets -> symbolic pointer is not attempted
	}
	return PoisonV{k}
}

func (in *Interp) use(v Value) Value {
	if p, ok := v.(PoisonV); ok {
		panic(mergeAbort{p.k})
	}
	return v
}

func bigOf(v int64) *big.Int { return big.NewInt(v) }
