package main

import (
	"fmt"
	"time"
	"math/big"
	"go/token"
	"go/types"
	"strings"

	"golang.org/x/tools/go/ssa"
)

const (
	rReached = iota
	rReturned
	rDead
)

type regionResult struct {
	kind int
	vals []Value
}

func (in *Interp) callFunction(fn *ssa.Function, args []Value, bind []Value) []Value {
	if len(fn.Blocks) == 0 {
		panic(unsupported{"no body for " + fn.String()})
	}
	in.depth++
	if in.depth > 200 {
		panic(unsupported{"call depth > 200 at " + fn.String()})
	}
	defer func() { in.depth-- }()
	in.funcsSeen[fn.String()]++
	in.stats.calls++
	fi := in.info(fn)
	fr := &Frame{fn: fn, info: fi, env: make([]Value, fi.nregs), visits: map[*ssa.BasicBlock]int{}, gor: in.curGor}
	for i, p := range fn.Params {
		fr.env[fi.reg[p]] = args[i]
	}
	for i, p := range fn.FreeVars {
		fr.env[fi.reg[p]] = bind[i]
	}
	res := in.runRegion(fr, fn.Blocks[0], nil, nil, false)
	switch res.kind {
	case rReturned:
		return res.vals
	case rDead:
		panic(pathDead{"callee dead: " + fn.String()})
	}
	panic("callFunction: region ended without return")
}

func (in *Interp) evalPhis(fr *Frame, blk, prev *ssa.BasicBlock) {
	var idx int = -1
	for i, p := range blk.Preds {
		if p == prev {
			idx = i
			break
		}
	}
	var vals []Value
	var phis []*ssa.Phi
	for _, ins := range blk.Instrs {
		phi, ok := ins.(*ssa.Phi)
		if !ok {
			break
		}
		if idx < 0 {
			panic("phi without matching predecessor")
		}
		// registers not defined on this edge may legitimately be poison/nil if unused
		var v Value
		e := phi.Edges[idx]
		switch e.(type) {
		case *ssa.Const, *ssa.Global, *ssa.Function, *ssa.Builtin:
			v = in.get(fr, e)
		default:
			v = fr.env[fr.info.reg[e]]
		}
		vals = append(vals, v)
		phis = append(phis, phi)
	}
	for i, phi := range phis {
		fr.env[fr.info.reg[phi]] = vals[i]
	}
}

// runRegion executes from blk (entered from prev) until block `stop` is reached (its phis
// evaluated) or the function returns.  stop==nil means run to return.
func (in *Interp) runRegion(fr *Frame, blk, prev, stop *ssa.BasicBlock, phisDone bool) (res regionResult) {
	defer func() {
		if r := recover(); r != nil {
			if pd, ok := r.(pathDead); ok {
				in.notes = appendNote(in.notes, "dead: "+pd.why)
				res = regionResult{kind: rDead}
				return
			}
			panic(r)
		}
	}()
	for {
		if !phisDone {
			if prev != nil && fr.info.backedge[[2]int{prev.Index, blk.Index}] {
				fr.visits[blk]++
				if in.cfg.Cut > 0 && fr.visits[blk] > in.cfg.Cut && in.repoFrame(fr) && len(in.guards) > 0 && fr.symLoop[blk] {
					// stated bound: symbolic paths that go round this loop more often are assumed away
					in.notes = appendNote(in.notes, fmt.Sprintf("loop in %s (block %d) cut after %d iterations on symbolic paths: longer paths are outside the claim", fr.fn.Name(), blk.Index, in.cfg.Cut))
					panic(pathDead{"loop cut"})
				}
			} else {
				fr.visits[blk] = 0
				if fr.symLoop != nil {
					delete(fr.symLoop, blk)
				}
			}
			if fr.visits[blk] > in.cfg.Unwind {
				panic(unsupported{fmt.Sprintf("unwinding bound %d exceeded in %s block %d", in.cfg.Unwind, fr.fn, blk.Index)})
			}
			if prev != nil {
				in.evalPhis(fr, blk, prev)
			}
		}
		if blk == stop {
			return regionResult{kind: rReached}
		}
		phisDone = false
		n := len(blk.Instrs)
		for _, ins := range blk.Instrs[:n-1] {
			if _, ok := ins.(*ssa.Phi); ok {
				continue
			}
			in.cur = ins
			in.stats.instrs++
			if in.stats.instrs&4095 == 0 && !in.deadline.IsZero() && time.Now().After(in.deadline) {
				panic(unsupported{"harness wall budget exhausted inside a path"})
			}
			in.exec(fr, ins)
		}
		term := blk.Instrs[n-1]
		in.cur = term
		switch t := term.(type) {
		case *ssa.Jump:
			prev, blk = blk, blk.Succs[0]
		case *ssa.Return:
			vals := make([]Value, len(t.Results))
			for i, r := range t.Results {
				vals[i] = in.get(fr, r)
			}
			in.runDefers(fr)
			return regionResult{kind: rReturned, vals: vals}
		case *ssa.Panic:
			msg := showValue(in.ts, in.get(fr, t.X))
			if iv, ok := in.get(fr, t.X).(*IfaceV); ok && iv.typ != nil {
				msg = showValue(in.ts, iv.val)
			}
			in.implicitFail("explicit:"+shortSite(in.site(t)), in.ts.False())
			panic(pathDead{"explicit panic " + msg})
		case *ssa.If:
			c := in.term(fr, t.Cond)
			if c.IsConst() {
				if c.b {
					prev, blk = blk, blk.Succs[0]
				} else {
					prev, blk = blk, blk.Succs[1]
				}
				continue
			}
			// pruning is needed for termination only where the branch decides about staying in a
			// loop; elsewhere both arms are executed under their guard and merged.
			{
				// a loop is "symbolic" (and subject to the stated cut) only once a symbolic condition
				// has been branched on in its function since the loop was entered; a loop whose body
				// and trip count are concrete and that merely runs under a symbolic guard of a caller
				// or of an enclosing branch is executed in full (a 12-iteration table initialisation
				// under a symbolic leap-year test was once cut away, and a seeded race with it)
				if fr.symLoop == nil {
					fr.symLoop = map[*ssa.BasicBlock]bool{}
				}
				for h := range fr.visits {
					fr.symLoop[h] = true
				}
			}
			ft, ff := true, true
			if es, ok := fr.info.exitSucc[blk]; ok && in.cfg.Cut > 0 && in.repoFrame(fr) && fr.visits[fr.info.exitHeader[blk]] >= in.cfg.Cut-1 {
				// stated bound: paths that stay in this loop any longer are outside the claim
				in.notes = appendNote(in.notes, fmt.Sprintf("loop at %s cut after %d iterations: longer paths are assumed away (outside the claim)", shortSite(in.site(t)), in.cfg.Cut))
				if es == 0 {
					if !in.feasible(c) {
						panic(pathDead{"loop cut: exit infeasible"})
					}
					in.assume(c)
					prev, blk = blk, blk.Succs[0]
				} else {
					if !in.feasible(in.ts.Not(c)) {
						panic(pathDead{"loop cut: exit infeasible"})
					}
					in.assume(in.ts.Not(c))
					prev, blk = blk, blk.Succs[1]
				}
				continue
			}
			if (fr.info.prune[blk] && in.loopDepthVisits(fr, blk) >= in.cfg.PruneFrom) || in.pruneAll || in.cfg.PruneAll {
				ft = in.feasible(c)
				if ft {
					ff = in.feasible(in.ts.Not(c))
				}
			}
			if !ft && !ff {
				panic(pathDead{"infeasible"})
			}
			if !ft || !ff {
				if ft {
					in.assume(c)
					prev, blk = blk, blk.Succs[0]
				} else {
					in.assume(in.ts.Not(c))
					prev, blk = blk, blk.Succs[1]
				}
				continue
			}
			k := in.nextDec
			in.nextDec++
			siteKey := fmt.Sprintf("%s#%d", in.site(t), c.id)
			if old, ok := in.forcedSite[k]; ok && old != siteKey {
				panic(unsupported{"decision numbering diverged between runs (" + old + " vs " + siteKey + ")"})
			}
			in.decSite[k] = siteKey
			if ch, ok := in.forced[k]; ok {
				in.taken[k] = ch
				if ch == 1 {
					if !in.feasible(c) {
						panic(pathDead{"forced branch infeasible"})
					}
					in.assume(c)
					prev, blk = blk, blk.Succs[0]
				} else {
					if !in.feasible(in.ts.Not(c)) {
						panic(pathDead{"forced branch infeasible"})
					}
					in.assume(in.ts.Not(c))
					prev, blk = blk, blk.Succs[1]
				}
				continue
			}
			// attempt to merge both arms at the immediate post-dominator
			J := fr.info.ipdom[blk]
			if J == nil && stop != nil {
				// the region cannot contain the function exit unless stop is nil
			}
			in.stats.merges++
			savedEnv := append([]Value{}, fr.env...)
			savedVisits := copyVisits(fr.visits)
			savedDefers := len(fr.defers)
			mark := len(in.journal)
			nc := in.ts.Not(c)

			in.guards = append(in.guards, c)
			resA := in.runRegion(fr, blk.Succs[0], blk, J, false)
			in.guards = in.guards[:len(in.guards)-1]
			envA := fr.env
			capA, orderA := in.capture(mark)
			in.rollback(mark)
			defersA := len(fr.defers)

			fr.env = append([]Value{}, savedEnv...)
			fr.visits = savedVisits
			fr.defers = fr.defers[:savedDefers]
			in.guards = append(in.guards, nc)
			resB := in.runRegion(fr, blk.Succs[1], blk, J, false)
			in.guards = in.guards[:len(in.guards)-1]
			if defersA != savedDefers || len(fr.defers) != savedDefers {
				panic(unsupported{"defer inside a symbolic branch"})
			}

			// lazy pruning: if the arms cannot be merged (different references, error vs nil, ...)
			// ask the solver whether both are feasible at all before giving up and forking
			if resA.kind != rDead && resB.kind != rDead && in.armsClash(c, resA, resB, capA, orderA, mark) {
				if !in.feasible(c) {
					resA.kind = rDead
				} else if !in.feasible(nc) {
					resB.kind = rDead
				}
			}
			switch {
			case resA.kind == rDead && resB.kind == rDead:
				panic(pathDead{"both arms dead"})
			case resA.kind == rDead:
				in.assume(nc)
				if resB.kind == rReturned {
					return resB
				}
			case resB.kind == rDead:
				in.rollback(mark)
				for _, sk := range orderA {
					in.writeSlot(sk.obj, sk.slot, capA[sk].final)
				}
				fr.env = envA
				in.assume(c)
				if resA.kind == rReturned {
					return resA
				}
			default:
				if resA.kind != resB.kind {
					panic(unsupported{"arms end differently (return vs join)"})
				}
				// memory
				capB, orderB := in.capture(mark)
				for _, sk := range orderA {
					a := capA[sk].final
					var b Value
					if cb, ok := capB[sk]; ok {
						b = cb.final
					} else {
						b = sk.obj.slots[sk.slot]
					}
					in.writeSlot(sk.obj, sk.slot, in.mergeValue(c, a, b, k))
				}
				for _, sk := range orderB {
					cb := capB[sk]
					if _, ok := capA[sk]; ok {
						continue
					}
					in.writeSlot(sk.obj, sk.slot, in.mergeValue(c, cb.orig, cb.final, k))
				}
				// registers
				envB := fr.env
				for i := range envB {
					a, b := envA[i], envB[i]
					if a == nil || b == nil {
						if a != nil || b != nil {
							envB[i] = PoisonV{k}
						}
						continue
					}
					envB[i] = in.mergeValue(c, a, b, k)
				}
				if resA.kind == rReturned {
					vals := make([]Value, len(resA.vals))
					for i := range vals {
						vals[i] = in.mergeValue(c, resA.vals[i], resB.vals[i], k)
					}
					return regionResult{kind: rReturned, vals: vals}
				}
			}
			if J == nil {
				panic("merge: join at exit but arms did not return")
			}
			blk = J
			prev = nil
			phisDone = true
			if J == stop {
				return regionResult{kind: rReached}
			}
		default:
			panic(unsupported{fmt.Sprintf("terminator %T", term)})
		}
	}
}

func (in *Interp) forcedHas(k int) bool { _, ok := in.forced[k]; return ok }

func copyVisits(m map[*ssa.BasicBlock]int) map[*ssa.BasicBlock]int {
	o := make(map[*ssa.BasicBlock]int, len(m))
	for k, v := range m {
		o[k] = v
	}
	return o
}


func appendNote(notes []string, s string) []string {
	for _, n := range notes {
		if n == s {
			return notes
		}
	}
	if len(notes) < 50 {
		notes = append(notes, s)
	}
	return notes
}

func shortSite(s string) string {
	if i := strings.Index(s, " ("); i >= 0 {
		return s[:i]
	}
	return s
}

func (in *Interp) runDefers(fr *Frame) {
	for len(fr.defers) > 0 {
		d := fr.defers[len(fr.defers)-1]
		fr.defers = fr.defers[:len(fr.defers)-1]
		in.invoke(d.fn, d.args, d.call, fr)
	}
}

// ---- instructions ----

func (in *Interp) exec(fr *Frame, ins ssa.Instruction) {
	switch x := ins.(type) {
	case *ssa.DebugRef:
	case *ssa.Alloc:
		et := x.Type().(*types.Pointer).Elem()
		o := in.newObject(et, 1, x.Comment)
		in.set(fr, x, &PtrV{obj: o})
	case *ssa.BinOp:
		in.set(fr, x, in.binop(x.Op, in.get(fr, x.X), in.get(fr, x.Y), x.X.Type(), x))
	case *ssa.UnOp:
		in.set(fr, x, in.unop(fr, x))
	case *ssa.Call:
		args, fnv := in.prepareCall(fr, &x.Call)
		res := in.invoke(fnv, args, &x.Call, fr)
		switch len(res) {
		case 0:
			in.set(fr, x, TupleV{})
		case 1:
			in.set(fr, x, res[0])
		default:
			in.set(fr, x, TupleV(res))
		}
	case *ssa.Go:
		args, fnv := in.prepareCall(fr, &x.Call)
		saved := in.curGor
		in.nextGor++
		in.spawnVC(in.nextGor)
		in.curGor = in.nextGor
		in.invoke(fnv, args, &x.Call, fr)
		in.curGor = saved
	case *ssa.Defer:
		args, fnv := in.prepareCall(fr, &x.Call)
		fr.defers = append(fr.defers, deferred{fn: fnv, args: args, call: &x.Call})
	case *ssa.RunDefers:
		in.runDefers(fr)
	case *ssa.ChangeType:
		in.set(fr, x, in.get(fr, x.X))
	case *ssa.ChangeInterface:
		in.set(fr, x, in.get(fr, x.X))
	case *ssa.Convert:
		in.set(fr, x, in.convert(in.get(fr, x.X), x.X.Type(), x.Type()))
	case *ssa.MakeInterface:
		in.set(fr, x, &IfaceV{typ: x.X.Type(), val: in.get(fr, x.X)})
	case *ssa.TypeAssert:
		in.set(fr, x, in.typeAssert(fr, x))
	case *ssa.Extract:
		in.set(fr, x, in.use(in.get(fr, x.Tuple).(TupleV)[x.Index]))
	case *ssa.FieldAddr:
		p := in.get(fr, x.X).(*PtrV)
		if p == nil || p.obj == nil {
			in.implicitFail("nil-deref", in.ts.False())
			panic(pathDead{"nil dereference (field)"})
		}
		st := x.X.Type().Underlying().(*types.Pointer).Elem().Underlying().(*types.Struct)
		q := *p
		q.off += in.fieldOff(st, x.Field)
		in.set(fr, x, &q)
	case *ssa.Field:
		in.set(fr, x, in.use(in.get(fr, x.X).(*StructV).fields[x.Field]))
	case *ssa.IndexAddr:
		in.set(fr, x, in.indexAddr(fr, x))
	case *ssa.Index:
		in.set(fr, x, in.indexValue(fr, x))
	case *ssa.Slice:
		in.set(fr, x, in.sliceOp(fr, x))
	case *ssa.MakeSlice:
		et := x.Type().Underlying().(*types.Slice).Elem()
		n := in.concreteInt(fr, x.Len, "make-len")
		c := in.concreteInt(fr, x.Cap, "make-cap")
		if n < 0 || c < n {
			in.implicitFail("makeslice-len", in.ts.False())
			panic(pathDead{"makeslice: len out of range"})
		}
		if c > 1<<16 {
			panic(unsupported{fmt.Sprintf("make of %d elements", c)})
		}
		o := in.newObject(et, c, "makeslice")
		in.set(fr, x, &SliceV{obj: o, len: n, cap: c, esz: in.nslots(et)})
	case *ssa.MakeClosure:
		cl := &ClosureV{fn: x.Fn.(*ssa.Function)}
		for _, b := range x.Bindings {
			cl.bind = append(cl.bind, in.get(fr, b))
		}
		in.set(fr, x, cl)
	case *ssa.MakeMap:
		in.nextMap++
		in.set(fr, x, &MapV{id: in.nextMap, m: map[string]Value{}, kv: map[string]Value{}})
	case *ssa.MakeChan:
		in.chans++
		in.set(fr, x, &ChanV{id: in.chans})
	case *ssa.MapUpdate:
		m := in.get(fr, x.Map).(*MapV)
		if m.nilm {
			in.implicitFail("nil-map-write", in.ts.False())
			panic(pathDead{"assignment to nil map"})
		}
		key := in.get(fr, x.Key)
		ks := in.mapKey(key)
		if len(in.guards) > 0 {
			panic(unsupported{"map update under symbolic guard"})
		}
		if _, ok := m.m[ks]; !ok {
			m.keys = append(m.keys, ks)
		}
		if in.logOn {
			in.mapWrites = append(in.mapWrites, m)
		}
		m.m[ks] = in.get(fr, x.Value)
		m.kv[ks] = key
	case *ssa.Lookup:
		in.set(fr, x, in.lookup(fr, x))
	case *ssa.Range:
		switch c := in.get(fr, x.X).(type) {
		case *MapV:
			in.set(fr, x, &iterV{m: c, keys: append([]string{}, c.keys...)})
		case StrV:
			in.set(fr, x, &iterV{s: string(c)})
		default:
			panic(unsupported{"range over " + x.X.Type().String()})
		}
	case *ssa.Next:
		it := in.get(fr, x.Iter).(*iterV)
		if x.IsString {
			if it.pos >= len(it.s) {
				in.set(fr, x, TupleV{in.ts.False(), in.ts.IntConst64(in.intSort(), 0), in.ts.IntConst64(in.sortMust(types.Typ[types.Int32]), 0)})
			} else {
				r := []rune(it.s[it.pos:])[0]
				p := it.pos
				it.pos += len(string(r))
				in.set(fr, x, TupleV{in.ts.True(), in.ts.IntConst64(in.intSort(), int64(p)), in.ts.IntConst64(in.sortMust(types.Typ[types.Int32]), int64(r))})
			}
		} else {
			mt := x.Iter.(*ssa.Range).X.Type().Underlying().(*types.Map)
			if it.pos >= len(it.keys) {
				in.set(fr, x, TupleV{in.ts.False(), in.zero(mt.Key()), in.zero(mt.Elem())})
			} else {
				k := it.keys[it.pos]
				it.pos++
				in.set(fr, x, TupleV{in.ts.True(), it.m.kv[k], it.m.m[k]})
			}
		}
	case *ssa.Phi:
	case *ssa.Store:
		in.store(in.get(fr, x.Addr).(*PtrV), in.get(fr, x.Val))
	case *ssa.Send:
		ch := in.get(fr, x.Chan).(*ChanV)
		if len(in.guards) > 0 {
			panic(unsupported{"channel send under symbolic guard"})
		}
		ch.queue = append(ch.queue, in.get(fr, x.X))
		ch.vcs = append(ch.vcs, in.curVC())
		in.tickVC()
		ch.sends++
		in.sendTotal++
	default:
		panic(unsupported{fmt.Sprintf("instruction %T", ins)})
	}
}

type iterV struct {
	m    *MapV
	keys []string
	s    string
	pos  int
}

func (in *Interp) intSort() Sort { return in.sortMust(types.Typ[types.Int]) }
func (in *Interp) sortMust(t types.Type) Sort {
	s, ok := in.sortOf(t)
	if !ok {
		panic(unsupported{"no sort for " + t.String()})
	}
	return s
}

func (in *Interp) mapKey(v Value) string {
	switch k := v.(type) {
	case StrV:
		return "s:" + string(k)
	case *Term:
		if k.IsConst() {
			return "t:" + in.ts.ref(k)
		}
		c := in.concretize(k, "map-key")
		return "t:" + in.ts.ref(in.ts.IntConst64(k.sort, int64(c)))
	case *IfaceV:
		if k.typ == nil {
			return "i:nil"
		}
		return "i:" + k.typ.String() + ":" + in.mapKey(k.val)
	case *StructV:
		s := "{"
		for _, f := range k.fields {
			s += in.mapKey(f) + ";"
		}
		return s + "}"
	case *ArrayV:
		s := "["
		for _, f := range k.elems {
			s += in.mapKey(f) + ";"
		}
		return s + "]"
	}
	panic(unsupported{fmt.Sprintf("map key %T", v)})
}

func (in *Interp) lookup(fr *Frame, x *ssa.Lookup) Value {
	switch c := in.get(fr, x.X).(type) {
	case *MapV:
		mt := x.X.Type().Underlying().(*types.Map)
		ks := in.mapKey(in.get(fr, x.Index))
		v, ok := c.m[ks]
		if !ok {
			v = in.zero(mt.Elem())
		}
		if x.CommaOk {
			return TupleV{v, in.ts.Bool(ok)}
		}
		return v
	case StrV:
		i := in.concreteInt(fr, x.Index, "string-index")
		if i < 0 || i >= len(c) {
			in.implicitFail("string-index", in.ts.False())
			panic(pathDead{"string index out of range"})
		}
		return in.ts.IntConst64(in.sortMust(types.Typ[types.Uint8]), int64(c[i]))
	}
	panic(unsupported{"lookup on " + x.X.Type().String()})
}

func (in *Interp) typeAssert(fr *Frame, x *ssa.TypeAssert) Value {
	iv := in.get(fr, x.X).(*IfaceV)
	ok := false
	if iv.typ != nil {
		if types.IsInterface(x.AssertedType) {
			ok = types.Implements(iv.typ, x.AssertedType.Underlying().(*types.Interface))
		} else {
			ok = types.Identical(iv.typ, x.AssertedType)
		}
	}
	var res Value
	if ok {
		if types.IsInterface(x.AssertedType) {
			res = iv
		} else {
			res = iv.val
		}
	}
	if x.CommaOk {
		if !ok {
			res = in.zero(x.AssertedType)
		}
		return TupleV{res, in.ts.Bool(ok)}
	}
	if !ok {
		in.obligation("no-panic:type-assert:"+shortSite(in.site(x)), "implicit", in.ts.False())
		panic(pathDead{"type assertion failed: " + x.AssertedType.String()})
	}
	return res
}

// bounds obligation: 0 <= idx < n ; returns false if certainly out of range
func (in *Interp) boundsOK(idx *Term, n int, what string) {
	s := idx.sort
	lo := in.ts.IntCmp("sle", in.ts.IntConst64(s, 0), idx)
	hi := in.ts.IntCmp("slt", idx, in.ts.IntConst64(s, int64(n)))
	ok := in.ts.And(lo, hi)
	if ok.IsTrue() {
		return
	}
	in.implicitFail(what+":"+shortSite(in.site(in.cur)), ok)
	if ok.IsFalse() {
		panic(pathDead{"index out of range"})
	}
}

func (in *Interp) indexAddr(fr *Frame, x *ssa.IndexAddr) Value {
	idx := in.term(fr, x.Index)
	if isUnsigned(x.Index.Type()) || x.Index.Type().Underlying().(*types.Basic).Kind() != types.Int {
		idx = in.convert(idx, x.Index.Type(), types.Typ[types.Int]).(*Term)
	}
	var obj *Object
	var base, n, esz int
	switch c := in.get(fr, x.X).(type) {
	case *SliceV:
		if c.obj == nil && c.len == 0 {
			in.boundsOK(idx, 0, "index")
			panic(pathDead{"index of empty slice"})
		}
		obj, base, n, esz = c.obj, c.off, c.len, c.esz
	case *PtrV:
		if c == nil || c.obj == nil {
			in.implicitFail("nil-deref", in.ts.False())
			panic(pathDead{"nil array pointer"})
		}
		if c.sym != nil {
			panic(unsupported{"index through symbolic pointer"})
		}
		at := x.X.Type().Underlying().(*types.Pointer).Elem().Underlying().(*types.Array)
		esz = in.nslots(at.Elem())
		obj, base = c.obj, c.off
		n = int(at.Len())
		if avail := (len(obj.slots) - base) / esz; avail < n {
			n = avail // ghost array: the real extent is the buffer behind it
		}
	default:
		panic(unsupported{fmt.Sprintf("indexaddr on %T", c)})
	}
	in.boundsOK(idx, n, "index")
	if idx.IsConst() {
		return &PtrV{obj: obj, off: base + int(signedOrInt(idx).Int64())*esz}
	}
	return &PtrV{obj: obj, off: base, sym: idx, stride: esz, count: n}
}

func (in *Interp) indexValue(fr *Frame, x *ssa.Index) Value {
	switch c := in.get(fr, x.X).(type) {
	case *ArrayV:
		idx := in.term(fr, x.Index)
		in.boundsOK(idx, len(c.elems), "index")
		if idx.IsConst() {
			return in.use(c.elems[int(signedOrInt(idx).Int64())])
		}
		var acc Value
		for k := len(c.elems) - 1; k >= 0; k-- {
			if acc == nil {
				acc = c.elems[k]
				continue
			}
			acc = in.mergeValue(in.ts.Eq(idx, in.ts.IntConst64(idx.sort, int64(k))), c.elems[k], acc, -1)
		}
		if _, bad := acc.(PoisonV); bad {
			return in.use(c.elems[in.concretize(idx, "array-index")])
		}
		return acc
	case StrV:
		i := in.concreteInt(fr, x.Index, "string-index")
		if i < 0 || i >= len(c) {
			in.implicitFail("string-index", in.ts.False())
			panic(pathDead{"string index out of range"})
		}
		return in.ts.IntConst64(in.sortMust(types.Typ[types.Uint8]), int64(c[i]))
	}
	panic(unsupported{"index on " + x.X.Type().String()})
}

func (in *Interp) sliceOp(fr *Frame, x *ssa.Slice) Value {
	opt := func(v ssa.Value, def int) int {
		if v == nil {
			return def
		}
		return in.concreteInt(fr, v, "slice-bound")
	}
	switch c := in.get(fr, x.X).(type) {
	case *SliceV:
		lo := opt(x.Low, 0)
		hi := opt(x.High, c.len)
		mx := opt(x.Max, c.cap)
		if lo < 0 || hi < lo || mx < hi || mx > c.cap {
			in.implicitFail("slice-bounds:"+shortSite(in.site(x)), in.ts.False())
			panic(pathDead{fmt.Sprintf("slice bounds out of range [%d:%d:%d] cap %d", lo, hi, mx, c.cap)})
		}
		if c.obj == nil {
			return &SliceV{esz: c.esz}
		}
		return &SliceV{obj: c.obj, off: c.off + lo*c.esz, len: hi - lo, cap: mx - lo, esz: c.esz}
	case StrV:
		lo := opt(x.Low, 0)
		hi := opt(x.High, len(c))
		if lo < 0 || hi < lo || hi > len(c) {
			in.implicitFail("slice-bounds:"+shortSite(in.site(x)), in.ts.False())
			panic(pathDead{"string slice bounds"})
		}
		return c[lo:hi]
	case *PtrV:
		if c == nil || c.obj == nil {
			in.implicitFail("nil-deref", in.ts.False())
			panic(pathDead{"slice of nil array pointer"})
		}
		at := x.X.Type().Underlying().(*types.Pointer).Elem().Underlying().(*types.Array)
		esz := in.nslots(at.Elem())
		n := int(at.Len())
		ghost := false
		if avail := (len(c.obj.slots) - c.off) / esz; avail < n {
			n = avail
			ghost = true
		}
		lo := opt(x.Low, 0)
		hi := opt(x.High, n)
		mx := opt(x.Max, n)
		if ghost && x.Max == nil && hi <= n {
			mx = n
		}
		if lo < 0 || hi < lo || mx < hi || mx > n {
			in.implicitFail("slice-bounds:"+shortSite(in.site(x)), in.ts.False())
			panic(pathDead{fmt.Sprintf("array slice bounds out of range [%d:%d:%d] of %d", lo, hi, mx, n)})
		}
		return &SliceV{obj: c.obj, off: c.off + lo*esz, len: hi - lo, cap: mx - lo, esz: esz}
	}
	panic(unsupported{"slice of " + x.X.Type().String()})
}

func (in *Interp) unop(fr *Frame, x *ssa.UnOp) Value {
	switch x.Op {
	case token.MUL:
		return in.load(in.get(fr, x.X).(*PtrV), x.Type())
	case token.SUB:
		t := in.term(fr, x.X)
		if isFloat(x.X.Type()) {
			return in.ts.FNeg(t)
		}
		return in.ts.IntNeg(t)
	case token.NOT:
		return in.ts.Not(in.term(fr, x.X))
	case token.XOR:
		return in.ts.BNot(in.term(fr, x.X))
	case token.ARROW:
		ch := in.get(fr, x.X).(*ChanV)
		if ch == nil || len(ch.queue) == 0 {
			in.obligation("no-deadlock:"+shortSite(in.site(x)), "implicit", in.ts.False())
			panic(pathDead{"receive on empty channel (deadlock in sequentialised schedule)"})
		}
		v := ch.queue[0]
		ch.queue = ch.queue[1:]
		if len(ch.vcs) > 0 {
			in.acquireVC(ch.vcs[0])
			ch.vcs = ch.vcs[1:]
			in.tickVC()
		}
		ch.recvs++
		in.recvTotal++
		if x.CommaOk {
			return TupleV{v, in.ts.True()}
		}
		return v
	}
	panic(unsupported{"unop " + x.Op.String()})
}

func (in *Interp) binop(op token.Token, a, b Value, xt types.Type, at ssa.Instruction) Value {
	ts := in.ts
	switch x := a.(type) {
	case *Term:
		y := b.(*Term)
		if x.sort == SBool {
			switch op {
			case token.EQL:
				return ts.Eq(x, y)
			case token.NEQ:
				return ts.Not(ts.Eq(x, y))
			case token.AND, token.LAND:
				return ts.And(x, y)
			case token.OR, token.LOR:
				return ts.Or(x, y)
			}
			panic(unsupported{"bool binop " + op.String()})
		}
		if isFloat(xt) {
			switch op {
			case token.ADD:
				return ts.FOp("fadd", x, y)
			case token.SUB:
				return ts.FOp("fsub", x, y)
			case token.MUL:
				return ts.FOp("fmul", x, y)
			case token.QUO:
				return in.fdiv(x, y)
			case token.EQL:
				return ts.Eq(x, y)
			case token.NEQ:
				return ts.Not(ts.Eq(x, y))
			case token.LSS:
				return ts.FCmp("flt", x, y)
			case token.LEQ:
				return ts.FCmp("fle", x, y)
			case token.GTR:
				return ts.FCmp("flt", y, x)
			case token.GEQ:
				return ts.FCmp("fle", y, x)
			}
			panic(unsupported{"float binop " + op.String()})
		}
		uns := isUnsigned(xt)
		pre := "s"
		if uns {
			pre = "u"
		}
		switch op {
		case token.ADD:
			return ts.IntOp("add", x, y)
		case token.SUB:
			return ts.IntOp("sub", x, y)
		case token.MUL:
			return ts.IntOp("mul", x, y)
		case token.QUO, token.REM:
			nz := ts.Not(ts.Eq(y, ts.IntConst64(y.sort, 0)))
			if !nz.IsTrue() {
				in.implicitFail("div-by-zero:"+shortSite(in.site(at)), nz)
				if nz.IsFalse() {
					panic(pathDead{"integer division by zero"})
				}
			}
			if op == token.QUO {
				return ts.IntOp(pre+"div", x, y)
			}
			return ts.IntOp(pre+"rem", x, y)
		case token.AND:
			if x.sort == SInt {
				// ints=math: x & (2^k-1) is x mod 2^k (Euclidean, which is what two's complement gives)
				m, v := y, x
				if x.IsConst() {
					m, v = x, y
				}
				if m.IsConst() && m.i.Sign() >= 0 {
					p1 := new(big.Int).Add(m.i, big.NewInt(1))
					if new(big.Int).And(p1, m.i).Sign() == 0 {
						if v.IsConst() {
							return ts.IntConst(SInt, new(big.Int).And(v.i, m.i))
						}
						return ts.mk("emod", SInt, v, ts.IntConst(SInt, p1))
					}
				}
				panic(unsupported{"bitwise and in ints=math mode (mask is not 2^k-1)"})
			}
			return ts.IntOp("band", x, y)
		case token.OR:
			return ts.IntOp("bor", x, y)
		case token.XOR:
			return ts.IntOp("bxor", x, y)
		case token.AND_NOT:
			return ts.IntOp("band", x, ts.BNot(y))
		case token.SHL, token.SHR:
			if x.sort == SInt {
				if !y.IsConst() {
					panic(unsupported{"symbolic shift in ints=math mode"})
				}
				p := new(big.Int).Lsh(big.NewInt(1), uint(y.i.Uint64()))
				if op == token.SHL {
					return ts.IntOp("mul", x, ts.IntConst(SInt, p))
				}
				panic(unsupported{"right shift in ints=math mode"})
			}
			if y.sort != x.sort {
				y = ts.IntConv(y, x.sort, false)
			}
			if op == token.SHL {
				return ts.IntOp("shl", x, y)
			}
			if uns {
				return ts.IntOp("lshr", x, y)
			}
			return ts.IntOp("ashr", x, y)
		case token.EQL:
			return ts.Eq(x, y)
		case token.NEQ:
			return ts.Not(ts.Eq(x, y))
		case token.LSS:
			return ts.IntCmp(pre+"lt", x, y)
		case token.LEQ:
			return ts.IntCmp(pre+"le", x, y)
		case token.GTR:
			return ts.IntCmp(pre+"lt", y, x)
		case token.GEQ:
			return ts.IntCmp(pre+"le", y, x)
		}
		panic(unsupported{"int binop " + op.String()})
	case StrV:
		y := b.(StrV)
		switch op {
		case token.ADD:
			return x + y
		case token.EQL:
			return ts.Bool(x == y)
		case token.NEQ:
			return ts.Bool(x != y)
		case token.LSS:
			return ts.Bool(x < y)
		case token.GTR:
			return ts.Bool(x > y)
		case token.LEQ:
			return ts.Bool(x <= y)
		case token.GEQ:
			return ts.Bool(x >= y)
		}
	}
	// reference comparisons
	if op == token.EQL || op == token.NEQ {
		eq := in.refEqual(a, b)
		if op == token.NEQ {
			return ts.Not(eq)
		}
		return eq
	}
	panic(unsupported{fmt.Sprintf("binop %s on %T", op, a)})
}

func (in *Interp) refEqual(a, b Value) *Term {
	switch x := a.(type) {
	case *PtrV:
		y := b.(*PtrV)
		xn, yn := x == nil || x.obj == nil, y == nil || y.obj == nil
		if xn || yn {
			return in.ts.Bool(xn && yn)
		}
		if x.sym != nil || y.sym != nil {
			panic(unsupported{"comparison of symbolic pointers"})
		}
		return in.ts.Bool(x.obj == y.obj && x.off == y.off)
	case *SliceV:
		y := b.(*SliceV)
		// only comparison with nil is legal
		if y.obj == nil && y.len == 0 && y.cap == 0 {
			return in.ts.Bool(x.obj == nil)
		}
		return in.ts.Bool(y.obj == nil && x.obj == nil)
	case *IfaceV:
		y := b.(*IfaceV)
		if x.typ == nil || y.typ == nil {
			return in.ts.Bool(x.typ == nil && y.typ == nil)
		}
		if !types.Identical(x.typ, y.typ) {
			return in.ts.False()
		}
		switch xv := x.val.(type) {
		case *Term:
			return in.ts.Eq(xv, y.val.(*Term))
		case StrV:
			return in.ts.Bool(xv == y.val.(StrV))
		}
		return in.refEqual(x.val, y.val)
	case *ClosureV:
		y := b.(*ClosureV)
		return in.ts.Bool((x == nil) == (y == nil) && (x == nil || false))
	case *MapV:
		y := b.(*MapV)
		return in.ts.Bool(x.nilm && y.nilm || x == y)
	case *ChanV:
		y := b.(*ChanV)
		return in.ts.Bool(x == y)
	case *StructV:
		y := b.(*StructV)
		acc := in.ts.True()
		for i := range x.fields {
			switch fv := x.fields[i].(type) {
			case *Term:
				acc = in.ts.And(acc, in.ts.Eq(fv, y.fields[i].(*Term)))
			case StrV:
				acc = in.ts.And(acc, in.ts.Bool(fv == y.fields[i].(StrV)))
			default:
				acc = in.ts.And(acc, in.refEqual(fv, y.fields[i]))
			}
		}
		return acc
	case *ArrayV:
		y := b.(*ArrayV)
		acc := in.ts.True()
		for i := range x.elems {
			switch ev := x.elems[i].(type) {
			case *Term:
				acc = in.ts.And(acc, in.ts.Eq(ev, y.elems[i].(*Term)))
			case StrV:
				acc = in.ts.And(acc, in.ts.Bool(ev == y.elems[i].(StrV)))
			default:
				acc = in.ts.And(acc, in.refEqual(ev, y.elems[i]))
			}
		}
		return acc
	}
	panic(unsupported{fmt.Sprintf("comparison of %T", a)})
}

func (in *Interp) repoFrame(fr *Frame) bool {
	// loops of the harness files themselves (overlaid zz_*.go) are never cut
	f := fr.fn
	for f.Parent() != nil {
		f = f.Parent()
	}
	if v, ok := in.harnessFn[f]; ok {
		return !v
	}
	name := in.prog.Fset.Position(f.Pos()).Filename
	isH := strings.Contains(name, "/zz_") || strings.Contains(name, "zzverif")
	in.harnessFn[f] = isH
	return !isH
}

// loopDepthVisits: the largest back-edge count among loop headers currently being iterated
// in this frame (a proxy for "this loop has gone round k times already").
func (in *Interp) loopDepthVisits(fr *Frame, blk *ssa.BasicBlock) int {
	if h, ok := fr.info.exitHeader[blk]; ok {
		return fr.visits[h]
	}
	m := 0
	for _, v := range fr.visits {
		if v > m {
			m = v
		}
	}
	return m
}

func hasPoison(v Value) bool {
	switch x := v.(type) {
	case PoisonV:
		return true
	case *StructV:
		for _, f := range x.fields {
			if hasPoison(f) {
				return true
			}
		}
	case *ArrayV:
		for _, f := range x.elems {
			if hasPoison(f) {
				return true
			}
		}
	case TupleV:
		for _, f := range x {
			if hasPoison(f) {
				return true
			}
		}
	case *IfaceV:
		return x.typ != nil && hasPoison(x.val)
	}
	return false
}

// armsClash: would merging the two arms produce a non-mergeable return value or memory cell?
func (in *Interp) armsClash(c *Term, resA, resB regionResult, capA map[slotKey]slotChange, orderA []slotKey, mark int) bool {
	if resA.kind == rReturned && resB.kind == rReturned {
		for i := range resA.vals {
			if i < len(resB.vals) && hasPoison(in.mergeValue(c, resA.vals[i], resB.vals[i], -2)) {
				return true
			}
		}
	}
	capB, orderB := in.capture(mark)
	for _, sk := range orderA {
		b := sk.obj.slots[sk.slot]
		if cb, ok := capB[sk]; ok {
			b = cb.final
		}
		if hasPoison(in.mergeValue(c, capA[sk].final, b, -2)) {
			return true
		}
	}
	for _, sk := range orderB {
		if _, ok := capA[sk]; ok {
			continue
		}
		if hasPoison(in.mergeValue(c, capB[sk].orig, capB[sk].final, -2)) {
			return true
		}
	}
	return false
}
