package main

import (
	"fmt"
	"go/types"
	"strconv"
	"strings"
)

// ---- kernel summary for wrapper-level harnesses ----
//
// Summarise("kernel:<func>:<nOut>") replaces a model kernel of the OW-SPEC calling convention
// (series arrays and scalars in, the LAST nOut series arrays out, scalars returned) by an
// arbitrary deterministic function that still TOUCHES memory like a kernel: every element of every
// series argument is read through the array's own Get1, every element of the output series is
// written through Set1 with an uninterpreted function of everything read (per output and
// timestep), the returned scalars are uninterpreted functions of everything read.  What a
// wrapper-level property needs from a kernel - which views it is handed, that it stays inside
// them, that equal arguments give equal results - is preserved; the kernel's arithmetic is not.

func (in *Interp) ifaceMethod(iv *IfaceV, name string, args ...Value) []Value {
	ms := in.prog.MethodSets.MethodSet(iv.typ)
	var sel *types.Selection
	for i := 0; i < ms.Len(); i++ {
		if ms.At(i).Obj().Name() == name {
			sel = ms.At(i)
		}
	}
	if sel == nil {
		panic(unsupported{"kernel summary: method " + name + " not found on " + iv.typ.String()})
	}
	fn := in.prog.MethodValue(sel)
	all := append([]Value{iv.val}, args...)
	return in.callFunction(fn, all, nil)
}

func (in *Interp) kernelSummary(fnName string, nOut int, args []Value, nRes int) []Value {
	ts := in.ts
	type series struct {
		iv *IfaceV
		n  int
	}
	var arrs []series
	var read []*Term
	for _, a := range args {
		switch v := a.(type) {
		case *IfaceV:
			if v.typ == nil {
				continue
			}
			ln := in.ifaceMethod(v, "Len1")
			lt, ok := ln[0].(*Term)
			if !ok || !lt.IsConst() {
				panic(unsupported{"kernel summary: symbolic series length"})
			}
			n := int(signedOrInt(lt).Int64())
			arrs = append(arrs, series{v, n})
		case *Term:
			if v.sort == SReal || v.sort.IsFP() {
				read = append(read, v)
			} else if v.sort == SInt || v.sort.IsBV() {
				read = append(read, ts.I2F(v, in.floatSort(), true))
			}
		}
	}
	if len(arrs) < nOut {
		panic(unsupported{"kernel summary: fewer series arguments than outputs"})
	}
	ins, outs := arrs[:len(arrs)-nOut], arrs[len(arrs)-nOut:]
	for _, s := range ins {
		for i := 0; i < s.n; i++ {
			v := in.ifaceMethod(s.iv, "Get1", ts.IntConst64(in.intSort(), int64(i)))
			if t, ok := v[0].(*Term); ok {
				read = append(read, t)
			}
		}
	}
	in.notes = appendNote(in.notes, fmt.Sprintf("kernel %s summarised: reads every element of its %d input series, writes every element of its %d output series with an uninterpreted function of all it read", fnName, len(ins), nOut))
	for k, s := range outs {
		for i := 0; i < s.n; i++ {
			y := in.ackermannNamedX("k_"+fnName+"_out"+strconv.Itoa(k)+"_"+strconv.Itoa(i)+"_a"+strconv.Itoa(len(read)), read, false, false)
			in.ifaceMethod(s.iv, "Set1", ts.IntConst64(in.intSort(), int64(i)), y)
		}
	}
	res := make([]Value, nRes)
	for r := 0; r < nRes; r++ {
		res[r] = in.ackermannNamedX("k_"+fnName+"_ret"+strconv.Itoa(r)+"_a"+strconv.Itoa(len(read)), read, false, false)
	}
	return res
}

// kernelSummaryFor: nOut if fn is summarised by a "kernel:<name>:<nOut>" entry, else -1
func (in *Interp) kernelSummaryFor(name string) int {
	for k := range in.summaries {
		if strings.HasPrefix(k, "kernel:"+name+":") {
			n, err := strconv.Atoi(strings.TrimPrefix(k, "kernel:"+name+":"))
			if err == nil {
				return n
			}
		}
	}
	return -1
}
