package main

import "fmt"

// ---- happens-before race analysis (vector clocks over the sequentialised execution) ----
//
// Goroutines are executed inline (a `go` statement runs the callee to completion or until it
// would block), channels are queues.  That is ONE schedule.  To say something about the others,
// every logged memory access carries the vector clock of its goroutine; clocks advance at
// `go` (child inherits the parent's clock), channel send -> matching receive, and
// Unlock -> later Lock / RLock (RUnlock -> later Lock).  Two conflicting accesses (same cell, one
// a write, different goroutines) that are NOT ordered by this relation and are not both made
// under a common lock (held exclusively by at least one of them) are reported: a scheduler can
// reorder them without changing any send/receive pairing.  Lock acquisition order is
// deliberately NOT an ordering edge (it is schedule-dependent); locks protect instead
// (lockset).  The receive-completes-before-unbuffered-send-returns edge is not used either
// (fewer edges = more reports, never fewer).

// lockset: locks held by a goroutine (immutable snapshots); value 1 = read-locked, 2 = write-locked
type lockset map[string]int

func (in *Interp) setHeld(key string, mode int) {
	if in.held == nil {
		in.held = map[int]lockset{}
	}
	n := lockset{}
	for k, v := range in.held[in.curGor] {
		n[k] = v
	}
	if mode == 0 {
		delete(n, key)
	} else {
		n[key] = mode
	}
	in.held[in.curGor] = n
}

func protectedByLock(a, b *accEntry) bool {
	for k, ma := range a.ls {
		if mb, ok := b.ls[k]; ok && (ma == 2 || mb == 2) {
			return true
		}
	}
	return false
}

type vclock map[int]int

func (v vclock) clone() vclock {
	w := make(vclock, len(v)+1)
	for k, x := range v {
		w[k] = x
	}
	return w
}

func joinVC(a, b vclock) vclock {
	w := a.clone()
	for k, x := range b {
		if x > w[k] {
			w[k] = x
		}
	}
	return w
}

func (in *Interp) curVC() vclock {
	if in.gorVC == nil {
		in.gorVC = map[int]vclock{}
	}
	v := in.gorVC[in.curGor]
	if v == nil {
		v = vclock{in.curGor: 1}
		in.gorVC[in.curGor] = v
	}
	return v
}

func (in *Interp) tickVC() {
	v := in.curVC().clone()
	v[in.curGor]++
	in.gorVC[in.curGor] = v
}

func (in *Interp) acquireVC(from vclock) {
	if from == nil {
		return
	}
	in.gorVC[in.curGor] = joinVC(in.curVC(), from)
}

// spawnVC: called with curGor still the parent; child is the new goroutine id
func (in *Interp) spawnVC(child int) {
	p := in.curVC()
	c := p.clone()
	c[child] = 1
	in.gorVC[child] = c
	in.tickVC()
}

func (in *Interp) findRacesHB() []raceConflict {
	type key struct {
		o *Object
		s int
	}
	type cell struct {
		writes, reads map[int]*accEntry // latest per (goroutine, holds-a-lock)
	}
	cells := map[key]*cell{}
	var out []raceConflict
	seen := map[string]bool{}
	report := func(a, b *accEntry, k key) {
		id := fmt.Sprintf("%d:%d:%d:%d", k.o.id, k.s, a.gor, b.gor)
		if seen[id] {
			return
		}
		seen[id] = true
		out = append(out, raceConflict{*a, *b})
	}
	for i := range in.acclog {
		e := &in.acclog[i]
		if e.vc == nil {
			continue
		}
		k := key{e.obj, e.slot}
		st := cells[k]
		if st == nil {
			st = &cell{writes: map[int]*accEntry{}, reads: map[int]*accEntry{}}
			cells[k] = st
		}
		ordered := func(a *accEntry) bool {
			return a.gor == e.gor || e.vc[a.gor] >= a.vc[a.gor] || protectedByLock(a, e)
		}
		for _, w := range st.writes {
			if !ordered(w) {
				report(w, e, k)
			}
		}
		ek := e.gor * 2
		if len(e.ls) > 0 {
			ek++
		}
		if e.write {
			for _, r := range st.reads {
				if !ordered(r) {
					report(r, e, k)
				}
			}
			st.writes[ek] = e
		} else {
			st.reads[ek] = e
		}
	}
	return out
}
