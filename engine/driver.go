package main

import (
	"crypto/sha1"
	"math/big"
	"encoding/json"
	"fmt"
	"go/ast"
	"go/types"
	"os"
	"os/exec"
	"path/filepath"
	"regexp"
	"sort"
	"strconv"
	"strings"
	"sync"
	"time"

	"golang.org/x/tools/go/packages"
	"golang.org/x/tools/go/ssa"
	"golang.org/x/tools/go/ssa/ssautil"
)

const repoMod = "github.com/flowmatters/openwater-core"

type HarnessSpec struct {
	Name    string
	Pkg     string // import path
	PkgDir  string // relative dir in repo
	Prop    string
	Tier    string // quick | thorough
	Cfg     Config
	Fn      *ssa.Function
	Doc     string
	MaxRuns int
	NoInit  bool
	Expect  string
	WallS   int
}

type HarnessResult struct {
	Spec        *HarnessSpec
	Obligations []*Obligation
	Runs        int
	Aborted     int
	Unsupported []string
	Notes       []string
	Funcs       map[string]int
	Stubs       []string
	Instrs      int
	Merges      int
	Forks       int
	FeasQueries int
	WallMs      int64
	Symbols     []string
}

type Workspace struct {
	Scratch  string
	RepoDir  string
	VerifDir string
	ModFile  string
	Overlay  map[string]string // virtual -> real
	OvJSON   string
	PkgDirs  []string
	Env      []string
}

func getenvDefault(k, d string) string {
	if v := os.Getenv(k); v != "" {
		return v
	}
	return d
}

func goEnv() []string {
	env := os.Environ()
	env = append(env, "GOFLAGS=-mod=mod", "GOPROXY=off", "GOSUMDB=off", "GOTOOLCHAIN=local", "GONOSUMDB=*", "GONOSUMCHECK=1")
	return env
}

func copyFile(src, dst string) error {
	b, err := os.ReadFile(src)
	if err != nil {
		return err
	}
	return os.WriteFile(dst, b, 0644)
}

// selectHarnessFiles: files under /verif/harness/<reldir>/ whose base name mentions the
// property (zz_c01*.go) or is shared (zz_common*.go).
func selectHarnessFiles(verifDir, prop string) (map[string]string, error) {
	out := map[string]string{}
	root := filepath.Join(verifDir, "harness")
	lp := strings.ToLower(prop)
	err := filepath.Walk(root, func(p string, fi os.FileInfo, err error) error {
		if err != nil {
			return err
		}
		if fi.IsDir() || !strings.HasSuffix(p, ".go") {
			return nil
		}
		rel, _ := filepath.Rel(root, p)
		if strings.HasPrefix(rel, "vsym/") {
			return nil
		}
		base := filepath.Base(p)
		if strings.Contains(base, "_"+lp+"_") || strings.Contains(base, "_"+lp+".") || strings.HasPrefix(base, "zz_common") || prop == "ALL" {
			out[rel] = p
		}
		return nil
	})
	return out, err
}

var typeTitle = map[string]string{"float64": "Float64", "float32": "Float32", "int32": "Int32", "uint32": "Uint32",
	"int64": "Int64", "uint64": "Uint64", "int": "Int", "uint": "Uint"}

// gennyTypes reads the element type list from the go:generate directive of a template file
func gennyTypes(repoDir, rel string) []string {
	b, err := os.ReadFile(filepath.Join(repoDir, rel))
	if err != nil {
		return nil
	}
	re := regexp.MustCompile(`ArrayType=([a-z0-9,]+)`)
	m := re.FindSubmatch(b)
	if m == nil {
		return nil
	}
	return strings.Split(string(m[1]), ",")
}

// catalogModels lists the model names registered by the generated wrappers of the current tree
func catalogModels(repoDir string) []string {
	files, _ := filepath.Glob(filepath.Join(repoDir, "models", "*", "generated_*.go"))
	re := regexp.MustCompile(`sim\.Catalog\["([A-Za-z0-9_]+)"\]`)
	seen := map[string]bool{}
	var out []string
	for _, f := range files {
		b, err := os.ReadFile(f)
		if err != nil {
			continue
		}
		for _, m := range re.FindAllSubmatch(b, -1) {
			if !seen[string(m[1])] {
				seen[string(m[1])] = true
				out = append(out, string(m[1]))
			}
		}
	}
	sort.Strings(out)
	return out
}

func setupWorkspace(repoDir, verifDir, prop string) (*Workspace, error) {
	scratch, err := os.MkdirTemp(getenvDefault("VERIF_SCRATCH", os.TempDir()), "gosmt-")
	if err != nil {
		return nil, err
	}
	repoRoot = filepath.Clean(repoDir)
	ws := &Workspace{Scratch: scratch, RepoDir: repoDir, VerifDir: verifDir, Overlay: map[string]string{}, Env: goEnv()}
	// alt.mod / alt.sum
	mod, err := os.ReadFile(filepath.Join(repoDir, "go.mod"))
	if err != nil {
		return nil, err
	}
	alt := string(mod)
	stub := filepath.Join(verifDir, "stubs", "hdf5")
	if _, err := os.Stat(stub); err == nil {
		alt += "\nreplace gonum.org/v1/hdf5 => " + stub + "\n"
	}
	ws.ModFile = filepath.Join(scratch, "alt.mod")
	if err := os.WriteFile(ws.ModFile, []byte(alt), 0644); err != nil {
		return nil, err
	}
	copyFile(filepath.Join(repoDir, "go.sum"), filepath.Join(scratch, "alt.sum"))
	// harness files
	files, err := selectHarnessFiles(verifDir, prop)
	if err != nil {
		return nil, err
	}
	dirs := map[string]bool{}
	for rel, real := range files {
		b, _ := os.ReadFile(real)
		src := string(b)
		if regexp.MustCompile(`(?m)^//vsym:formodels`).MatchString(src) {
			// template: one instance per catalogued model found in the generated wrappers of the tree
			names := catalogModels(repoDir)
			if len(names) == 0 {
				return nil, fmt.Errorf("no catalogued models found")
			}
			for _, mn := range names {
				inst := strings.ReplaceAll(src, "MODELNAME", mn)
				inst = regexp.MustCompile(`(?m)^//vsym:formodels.*$`).ReplaceAllString(inst, "")
				gen := filepath.Join(scratch, "gen_"+strings.ReplaceAll(strings.TrimSuffix(rel, ".go"), "/", "_")+"_"+mn+".go")
				os.WriteFile(gen, []byte(inst), 0644)
				virt := filepath.Join(repoDir, filepath.Dir(rel), strings.TrimSuffix(filepath.Base(rel), ".go")+"_"+mn+".go")
				ws.Overlay[virt] = gen
			}
		} else if m := regexp.MustCompile(`(?m)^//vsym:foreach\s+(\S+)\s+(\S+)`).FindStringSubmatch(src); m != nil {
			// template: instantiate once per element type read from the genny directive
			tys := gennyTypes(repoDir, m[2])
			if len(tys) == 0 {
				return nil, fmt.Errorf("no genny types found in %s", m[2])
			}
			for _, ty := range tys {
				inst := strings.ReplaceAll(src, "ELEMTITLE", typeTitle[ty])
				inst = strings.ReplaceAll(inst, "ELEMTYPE", ty)
				inst = regexp.MustCompile(`(?m)^//vsym:foreach.*$`).ReplaceAllString(inst, "")
				// "tier=quick quicktypes=a,b": only the listed element types stay in the quick tier
				inst = regexp.MustCompile(`tier=quick(.*) quicktypes=([a-z0-9,]+)`).ReplaceAllStringFunc(inst, func(m string) string {
					sm := regexp.MustCompile(`tier=quick(.*) quicktypes=([a-z0-9,]+)`).FindStringSubmatch(m)
					for _, q := range strings.Split(sm[2], ",") {
						if q == ty {
							return "tier=quick" + sm[1]
						}
					}
					return "tier=thorough" + sm[1]
				})
				gen := filepath.Join(scratch, "gen_"+strings.ReplaceAll(strings.TrimSuffix(rel, ".go"), "/", "_")+"_"+ty+".go")
				os.WriteFile(gen, []byte(inst), 0644)
				virt := filepath.Join(repoDir, filepath.Dir(rel), strings.TrimSuffix(filepath.Base(rel), ".go")+"_"+ty+".go")
				ws.Overlay[virt] = gen
			}
		} else {
			ws.Overlay[filepath.Join(repoDir, rel)] = real
		}
		dirs[filepath.Dir(rel)] = true
	}
	ws.Overlay[filepath.Join(repoDir, "zzverif/vsym/vsym.go")] = filepath.Join(verifDir, "harness/vsym/vsym.go")
	for d := range dirs {
		ws.PkgDirs = append(ws.PkgDirs, d)
	}
	sort.Strings(ws.PkgDirs)
	return ws, nil
}

func (ws *Workspace) writeOverlayJSON() error {
	type ov struct{ Replace map[string]string }
	b, _ := json.MarshalIndent(ov{ws.Overlay}, "", " ")
	ws.OvJSON = filepath.Join(ws.Scratch, "overlay.json")
	return os.WriteFile(ws.OvJSON, b, 0644)
}

func (ws *Workspace) Cleanup() { os.RemoveAll(ws.Scratch) }

type Loaded struct {
	Prog  *ssa.Program
	Pkgs  []*packages.Package
	Specs []*HarnessSpec
	LoadS float64
}

func parseDirectives(doc string, hs *HarnessSpec) {
	for _, line := range strings.Split(doc, "\n") {
		line = strings.TrimSpace(line)
		if !strings.HasPrefix(line, "vsym:") {
			continue
		}
		for _, kv := range strings.Fields(strings.TrimPrefix(line, "vsym:")) {
			p := strings.SplitN(kv, "=", 2)
			if len(p) != 2 {
				continue
			}
			switch p[0] {
			case "prop":
				hs.Prop = p[1]
			case "tier":
				hs.Tier = p[1]
			case "ints":
				hs.Cfg.Ints = p[1]
			case "floats":
				hs.Cfg.Floats = p[1]
			case "unwind":
				hs.Cfg.Unwind, _ = strconv.Atoi(p[1])
			case "timeout":
				s, _ := strconv.Atoi(p[1])
				hs.Cfg.ObligMs = s * 1000
			case "feasms":
				hs.Cfg.FeasMs, _ = strconv.Atoi(p[1])
			case "maxconc":
				hs.Cfg.MaxConcrete, _ = strconv.Atoi(p[1])
			case "maxruns":
				hs.MaxRuns, _ = strconv.Atoi(p[1])
			case "cut":
				hs.Cfg.Cut, _ = strconv.Atoi(p[1])
			case "prunefrom":
				hs.Cfg.PruneFrom, _ = strconv.Atoi(p[1])
			case "prune":
				hs.Cfg.PruneAll = p[1] == "all"
			case "concf2i":
				hs.Cfg.ConcF2I = p[1] == "1"
			case "wall":
				hs.WallS, _ = strconv.Atoi(p[1])
			case "noinit":
				hs.NoInit = p[1] == "1"
			case "expect":
				hs.Expect = p[1]
			}
		}
	}
}

func loadAll(ws *Workspace, tier string) (*Loaded, error) {
	t0 := time.Now()
	overlay := map[string][]byte{}
	for virt, real := range ws.Overlay {
		b, err := os.ReadFile(real)
		if err != nil {
			return nil, err
		}
		overlay[virt] = b
	}
	cfg := &packages.Config{Mode: packages.LoadAllSyntax, Dir: ws.RepoDir, Overlay: overlay, Env: ws.Env,
		BuildFlags: []string{"-modfile=" + ws.ModFile}}
	var pats []string
	for _, d := range ws.PkgDirs {
		pats = append(pats, "./"+d)
	}
	pats = append(pats, "./zzverif/vsym")
	pkgs, err := packages.Load(cfg, pats...)
	if err != nil {
		return nil, err
	}
	nerr := 0
	packages.Visit(pkgs, nil, func(p *packages.Package) {
		for _, e := range p.Errors {
			if nerr < 20 {
				fmt.Fprintln(os.Stderr, "load error:", e)
			}
			nerr++
		}
	})
	if nerr > 0 {
		return nil, fmt.Errorf("%d package load errors", nerr)
	}
	prog, _ := ssautil.AllPackages(pkgs, ssa.InstantiateGenerics)
	prog.Build()
	ld := &Loaded{Prog: prog, Pkgs: pkgs}
	for _, p := range pkgs {
		sp := prog.Package(p.Types)
		if sp == nil {
			continue
		}
		for _, f := range p.Syntax {
			fname := p.Fset.Position(f.Pos()).Filename
			if _, ok := ws.Overlay[fname]; !ok {
				continue
			}
			for _, d := range f.Decls {
				fd, ok := d.(*ast.FuncDecl)
				if !ok || fd.Recv != nil || !strings.HasPrefix(fd.Name.Name, "H_") {
					continue
				}
				hs := &HarnessSpec{Name: fd.Name.Name, Pkg: p.PkgPath, Tier: "quick",
					Cfg: Config{Ints: "bv", Floats: "real", Unwind: 64, FeasMs: 2000, ObligMs: 60000, MaxConcrete: 64, PruneFrom: 3}, MaxRuns: 4000, WallS: 600}
				hs.PkgDir = strings.TrimPrefix(strings.TrimPrefix(p.PkgPath, repoMod), "/")
				if fd.Doc != nil {
					hs.Doc = fd.Doc.Text()
					for _, c := range fd.Doc.List {
						parseDirectives(strings.TrimPrefix(c.Text, "//"), hs)
					}
				}
				hs.Fn = sp.Func(fd.Name.Name)
				if hs.Fn == nil {
					continue
				}
				if hs.Prop == "" {
					parts := strings.Split(fd.Name.Name, "_")
					if len(parts) > 1 {
						hs.Prop = parts[1]
					}
				}
				if tier == "thorough" {
					hs.Cfg.ObligMs *= 5
				}
				ld.Specs = append(ld.Specs, hs)
			}
		}
	}
	sort.Slice(ld.Specs, func(i, j int) bool { return ld.Specs[i].Name < ld.Specs[j].Name })
	// *errors.errorString
	for _, p := range prog.AllPackages() {
		if p.Pkg.Path() == "errors" {
			if tn := p.Pkg.Scope().Lookup("errorString"); tn != nil {
				errorStringType = types.NewPointer(tn.Type())
			}
		}
	}
	ld.LoadS = time.Since(t0).Seconds()
	return ld, nil
}

var keepScripts = os.Getenv("GOSMT_DUMPALL") != ""

// ---- obligation pool ----

type Pool struct {
	ch      chan *Obligation
	wg      sync.WaitGroup
	mu      sync.Mutex
	cache   map[string]*Obligation
	seed    int
	timeout int
	Queries int
	SolverS map[string]float64
}

func NewPool(n int, seed int) *Pool {
	p := &Pool{ch: make(chan *Obligation, 100000), cache: map[string]*Obligation{}, seed: seed, SolverS: map[string]float64{}}
	for i := 0; i < n; i++ {
		p.wg.Add(1)
		go p.worker()
	}
	return p
}

func (p *Pool) worker() {
	defer p.wg.Done()
	s1 := &scriptSolver{kind: KindZ3New, s: NewSolver(KindZ3New, nil, p.seed)}
	s2 := &scriptSolver{kind: KindZ3, s: NewSolver(KindZ3, nil, p.seed)}
	defer s1.Close()
	defer s2.Close()
	type rr struct {
		res   string
		model Model
		who   *scriptSolver
		secs  float64
	}
	for ob := range p.ch {
		t0 := time.Now()
	again:
		ms := ob.timeoutMs
		ch := make(chan rr, 2)
		run := func(ss *scriptSolver) {
			t := time.Now()
			res, model := ss.Run(ob.Script, ob.Vars, ms, p.seed)
			ch <- rr{res, model, ss, time.Since(t).Seconds()}
		}
		go run(s1)
		started2 := false
		var final rr
		got := 0
		timer := time.NewTimer(1500 * time.Millisecond)
	loop:
		for {
			select {
			case r := <-ch:
				got++
				p.mu.Lock()
				p.SolverS[r.who.kind.Name] += r.secs
				p.Queries++
				p.mu.Unlock()
				if r.res != "unknown" {
					final = r
					break loop
				}
				if !started2 {
					started2 = true
					go run(s2)
				} else if got == 2 {
					final = r
					break loop
				}
			case <-timer.C:
				if !started2 {
					started2 = true
					go run(s2)
				}
			}
		}
		timer.Stop()
		// stop the loser (if any is still running) and drain
		if started2 && got < 2 {
			loser := s1
			if final.who == s1 {
				loser = s2
			}
			loser.Kill()
			<-ch
			loser.Close()
		}
		if final.res != "unsat" && ob.Script2 != "" && !ob.UsedTol {
			// exact form not proved: decide the toleranced form instead
			ob.UsedTol = true
			ob.Script, ob.Vars = ob.Script2, ob.Vars2
			// decided here and now: re-queueing on p.ch can deadlock once the queue is full and
			// every worker wants to re-queue (seen once on C03 thorough under load)
			goto again
		}
		if final.res == "unknown" && ob.Kind == "assert" && ob.Script != "" {
			// neither proved nor refuted: probe for a counterexample at concrete points of the
			// path condition (an under-approximation: any hit is a genuine model of the full query)
			ob.ProbeModels = probeCounterexample(s1, ob, p.seed)
		}
		ob.Result, ob.Model = final.res, final.model
		ob.Solver = final.who.kind.Name
		if final.res == "unsat" && !keepScripts {
			// free the script text of discharged obligations (only its hash is needed later)
			h := sha1.Sum([]byte(ob.Script))
			ob.ScriptHash = fmt.Sprintf("%x", h[:8])
			ob.Script, ob.Script2 = "", ""
			ob.Vars, ob.Vars2 = nil, nil
			ob.Bounds, ob.Orders, ob.ProbeModels = nil, nil, nil
		}
		ob.Ms = time.Since(t0).Milliseconds()
		ob.done <- struct{}{}
	}
}

// scriptSolver: persistent solver process fed complete scripts
type scriptSolver struct {
	kind SolverKind
	s    *Solver
}

func (ss *scriptSolver) Close() {
	if ss.s != nil {
		ss.s.Close()
	}
}

func (ss *scriptSolver) Kill() {
	if ss.s != nil {
		ss.s.Kill()
	}
}

func (ss *scriptSolver) Run(script string, vars map[string]Sort, timeoutMs int, seed int) (string, Model) {
	if ss.s == nil {
		ss.s = NewSolver(ss.kind, nil, seed)
	}
	return ss.s.CheckScript(script, vars, timeoutMs)
}

// ---- running harnesses ----

func runHarness(ld *Loaded, hs *HarnessSpec, tier string, known map[string]bool, pool *Pool, seed int) *HarnessResult {
	t0 := time.Now()
	hr := &HarnessResult{Spec: hs, Funcs: map[string]int{}}
	ts := NewTermStore()
	fk := KindZ3New
	if os.Getenv("GOSMT_FEAS") == "old" {
		fk = KindZ3
	}
	sol := NewSolver(fk, ts, seed)
	defer sol.Close()
	queue := []*runSpec{{forced: map[int]int{}, sites: map[int]string{}}}
	stubs := map[string]bool{}
	syms := map[string]bool{}
	seenOb := map[string]*Obligation{}
	feasCache := map[string]bool{}
	for len(queue) > 0 {
		spec := queue[0]
		queue = queue[1:]
		hr.Runs++
		if hr.Runs > hs.MaxRuns {
			hr.Unsupported = append(hr.Unsupported, fmt.Sprintf("more than %d paths", hs.MaxRuns))
			break
		}
		if hs.WallS > 0 && time.Since(t0).Seconds() > float64(hs.WallS) {
			hr.Unsupported = append(hr.Unsupported, fmt.Sprintf("harness wall budget of %d s exhausted after %d paths (%d pending)", hs.WallS, hr.Runs-1, len(queue)+1))
			break
		}
		ts.fresh = 0
		in := NewInterp(ld.Prog, hs.Cfg, ts, sol)
		in.repoPrefix = repoMod
		in.harness = hs.Name
		in.tier = tier
		in.known = known
		in.noInit = hs.NoInit
		in.feasCache = feasCache
		if hs.WallS > 0 {
			in.deadline = t0.Add(time.Duration(hs.WallS) * time.Second)
		}
		in.forced = spec.forced
		in.forcedSite = spec.sites
		var keys []string
		for k, v := range spec.forced {
			keys = append(keys, fmt.Sprintf("%d=%d", k, v))
		}
		sort.Strings(keys)
		in.pathID = strings.Join(keys, ",")
		if os.Getenv("GOSMT_DEBUG") != "" && hr.Runs < 400 {
			fmt.Printf("DEBUG run %d spec %s\n", hr.Runs, in.pathID)
		}
		var buf []*Obligation
		in.emit = func(ob *Obligation) { buf = append(buf, ob) }
		aborted := false
		abortedAt := -1
		func() {
			defer func() {
				if r := recover(); r != nil {
					switch e := r.(type) {
					case mergeAbort:
						aborted = true
						if e.k < 0 {
							hr.Unsupported = append(hr.Unsupported, "internal: unhandled local poison")
							return
						}
						in.taken[e.k] = 1
						abortedAt = e.k
						queue = append(queue, in.specWith(e.k, 1), in.specWith(e.k, 0))
					case unsupported:
						hr.Unsupported = appendNote(hr.Unsupported, e.what+" @ "+in.site(in.cur))
					case pathDead:
						in.notes = appendNote(in.notes, "path ended: "+e.why)
					default:
						panic(r)
					}
				}
			}()
			in.ensureInit(hs.Fn.Pkg)
			in.deferredFacts = nil
			in.pools = nil
			in.replayEnv = nil
			in.callFunction(hs.Fn, nil, nil)
			for _, l := range in.deferredFacts {
				in.obligation(l, "cwidth", in.ts.False())
			}
		}()
		if aborted {
			hr.Aborted++
			// alternatives of decisions taken BEFORE the abort point stay scheduled; those of later
			// decisions are rediscovered under each forced branch of the aborted decision
			for _, ps := range in.pending {
				mx := -1
				for kk := range ps.forced {
					if kk > mx {
						mx = kk
					}
				}
				if mx < abortedAt {
					queue = append(queue, ps)
				}
			}
		} else {
			for _, ob := range buf {
				if old, ok := seenOb[ob.Key]; ok && ob.Key != "" {
					_ = old
					continue
				}
				seenOb[ob.Key] = ob
				ob.timeoutMs = hs.Cfg.ObligMs
				if ob.Kind == "reach" {
					// vacuity witnesses are satisfiability queries: usually instant, but allow them the
					// harness's own budget on non-linear path conditions under load
					ob.timeoutMs = 10000
					if hs.Cfg.ObligMs > ob.timeoutMs {
						ob.timeoutMs = hs.Cfg.ObligMs
					}
				}
				if ob.Hunt && ob.timeoutMs > 30000 {
					ob.timeoutMs = 30000
				}
				ob.done = make(chan struct{}, 1)
				hr.Obligations = append(hr.Obligations, ob)
				if ob.Result == "" {
					pool.ch <- ob
				} else {
					ob.done <- struct{}{}
				}
			}
			queue = append(queue, in.pending...)
		}
		for k, v := range in.funcsSeen {
			hr.Funcs[k] += v
		}
		for k := range in.stubs {
			stubs[k] = true
		}
		for k := range in.symbols {
			syms[k] = true
		}
		for _, n := range in.notes {
			hr.Notes = appendNote(hr.Notes, n)
		}
		hr.Instrs += in.stats.instrs
		hr.Merges += in.stats.merges
		hr.Forks += in.stats.forks
		hr.FeasQueries += in.stats.feas
	}
	for k := range stubs {
		hr.Stubs = append(hr.Stubs, k)
	}
	sort.Strings(hr.Stubs)
	for k := range syms {
		hr.Symbols = append(hr.Symbols, k)
	}
	sort.Strings(hr.Symbols)
	for _, ob := range hr.Obligations {
		<-ob.done
	}
	hr.WallMs = time.Since(t0).Milliseconds()
	return hr
}

// ---- replay ----

type Replayer struct {
	ws    *Workspace
	ld    *Loaded
	mu    sync.Mutex
	kept  map[string]int    // replay file -> number of reproducing counterexamples stored under that base name
	bins  map[string]string // pkg dir -> test binary
	built map[string]error
}

func (rp *Replayer) testBinary(hs *HarnessSpec, all []*HarnessSpec) (string, error) {
	rp.mu.Lock()
	defer rp.mu.Unlock()
	if b, ok := rp.bins[hs.PkgDir]; ok {
		return b, rp.built[hs.PkgDir]
	}
	// generate the replay test file for this package
	var sb strings.Builder
	pkgName := hs.Fn.Pkg.Pkg.Name()
	fmt.Fprintf(&sb, "package %s\n\nimport (\n\t\"fmt\"\n\t\"os\"\n\t\"testing\"\n\t\"%s/zzverif/vsym\"\n)\n\n", pkgName, repoMod)
	sb.WriteString("var vsymHarnesses = map[string]func(){\n")
	for _, h := range all {
		if h.PkgDir == hs.PkgDir {
			fmt.Fprintf(&sb, "\t%q: %s,\n", h.Name, h.Name)
		}
	}
	sb.WriteString("}\n\nfunc TestVsymReplay(t *testing.T) {\n\tf := vsymHarnesses[os.Getenv(\"VSYM_HARNESS\")]\n\tif f == nil {\n\t\tt.Fatal(\"no such harness\")\n\t}\n")
	sb.WriteString("\tdefer func() {\n\t\tif r := recover(); r != nil {\n\t\t\tif _, ok := r.(vsym.AssumeFailed); ok {\n\t\t\t\tfmt.Println(\"VSYM-ASSUME-FAILED\")\n\t\t\t\treturn\n\t\t\t}\n\t\t\tfmt.Printf(\"VSYM-PANIC %v\\n\", r)\n\t\t\treturn\n\t\t}\n\t\tif !vsym.CheckRedZones() {\n\t\t\tfmt.Println(\"VSYM-PANIC write outside C buffer (red zone)\")\n\t\t}\n\t\tfmt.Println(\"VSYM-DONE\")\n\t}()\n\tf()\n}\n")
	gen := filepath.Join(rp.ws.Scratch, "replay_"+strings.ReplaceAll(hs.PkgDir, "/", "_")+"_test.go")
	os.WriteFile(gen, []byte(sb.String()), 0644)
	rp.ws.Overlay[filepath.Join(rp.ws.RepoDir, hs.PkgDir, "zz_vsym_replay_test.go")] = gen
	rp.ws.writeOverlayJSON()
	bin := filepath.Join(rp.ws.Scratch, strings.ReplaceAll(hs.PkgDir, "/", "_")+".test")
	args := []string{"test", "-c", "-vet=off", "-modfile=" + rp.ws.ModFile, "-overlay=" + rp.ws.OvJSON, "-o", bin}
	if hs.Prop == "C05" {
		// goroutine footprints: the native replay runs under the Go race detector
		args = append(args, "-race")
	}
	args = append(args, "./"+hs.PkgDir)
	cmd := exec.Command("go", args...)
	cmd.Dir = rp.ws.RepoDir
	cmd.Env = rp.ws.Env
	out, err := cmd.CombinedOutput()
	if err != nil {
		err = fmt.Errorf("building replay binary: %v\n%s", err, out)
	}
	rp.bins[hs.PkgDir] = bin
	rp.built[hs.PkgDir] = err
	return bin, err
}

type ReplayOutcome struct {
	Reproduced bool
	Output     string
	File       string
	Why        string
}

func modelToSymbols(ob *Obligation) map[string]string {
	out := map[string]string{}
	for name, s := range ob.Vars {
		if strings.HasPrefix(name, "uf:") {
			if raw, ok := ob.Model[name]; ok {
				if v, ok := DecodeValue(raw, s); ok {
					out[name] = formatValue(v, s)
				}
			}
			continue
		}
		if !strings.HasPrefix(name, "sym:") {
			continue
		}
		raw, ok := ob.Model[name]
		if !ok {
			continue
		}
		v, ok := DecodeValue(raw, s)
		if !ok {
			continue
		}
		out[strings.TrimPrefix(name, "sym:")] = formatValue(v, s)
	}
	return out
}

func (rp *Replayer) Replay(hs *HarnessSpec, ob *Obligation, all []*HarnessSpec, tier string, known []string, outDir string) ReplayOutcome {
	bin, err := rp.testBinary(hs, all)
	if err != nil {
		return ReplayOutcome{Why: err.Error()}
	}
	os.MkdirAll(outDir, 0755)
	safe := regexp.MustCompile(`[^A-Za-z0-9_.-]+`).ReplaceAllString(ob.Label, "_")
	file := filepath.Join(outDir, hs.Name+"."+safe+".json")
	rp.mu.Lock()
	if rp.kept == nil {
		rp.kept = map[string]int{}
	}
	if n := rp.kept[file]; n > 0 {
		// a reproducing counterexample with this name is already on disk: keep it, number this one
		file = filepath.Join(outDir, fmt.Sprintf("%s.%s.%d.json", hs.Name, safe, n+1))
	}
	rp.mu.Unlock()
	rf := map[string]interface{}{"harness": hs.Name, "label": ob.Label, "symbols": modelToSymbols(ob), "known": known, "tier": tier,
		"site": ob.Site, "pkg": hs.PkgDir, "env": ob.Env}
	b, _ := json.MarshalIndent(rf, "", " ")
	os.WriteFile(file, b, 0644)
	cmd := exec.Command(bin, "-test.run", "^TestVsymReplay$", "-test.v", "-test.timeout", "120s")
	cmd.Dir = filepath.Join(rp.ws.RepoDir, hs.PkgDir)
	cmd.Env = append(os.Environ(), "VSYM_REPLAY="+file, "VSYM_HARNESS="+hs.Name, "VERIF_TIER="+tier)
	cmd.Env = append(cmd.Env, ob.Env...)
	out, rerr := cmd.CombinedOutput()
	so := string(out)
	ro := ReplayOutcome{Output: so, File: file}
	switch {
	case ob.Kind == "assert" && strings.Contains(so, "VSYM-ASSERT-FAILED "+ob.Label+"\n"):
		// the assertion failed before any later assumption (about symbols created after this
		// obligation, absent from its model) could end the native run
		ro.Reproduced = true
	case strings.Contains(so, "VSYM-ASSUME-FAILED"):
		ro.Why = "replay does not satisfy the harness assumptions in float64/native arithmetic"
	case strings.HasPrefix(ob.Label, "fact:") || strings.Contains(ob.Label, "hdf5-call-under-lock") || strings.Contains(ob.Label, "hdf5-write-under-write-lock") || strings.Contains(ob.Label, "lock-discipline"):
		// a fact about the executed SSA itself (e.g. a store to a package-level variable during
		// Run) that a native run cannot observe: the satisfiable path condition is the evidence
		ro.Reproduced = !strings.Contains(so, "VSYM-ASSUME-FAILED")
		ro.Why = "engine-observed fact on a feasible path (not observable natively)"
	case strings.Contains(ob.Label, "no-conflicting-accesses"):
		ro.Reproduced = strings.Contains(so, "DATA RACE")
		if !ro.Reproduced {
			ro.Why = "the Go race detector reported no race in the native run"
		}
	case ob.Kind == "cwidth":
		// the engine saw a caller-owned C buffer reinterpreted with another element width; natively
		// that shows as some lock-step comparison with the Go-backed array failing, or a crash
		ro.Reproduced = strings.Contains(so, "VSYM-ASSERT-FAILED") || strings.Contains(so, "VSYM-PANIC") || (rerr != nil && (strings.Contains(so, "panic:") || strings.Contains(so, "fatal error:")))
		if !ro.Reproduced {
			ro.Why = "no native discrepancy for the model values"
		}
	case ob.Kind == "assert":
		ro.Reproduced = strings.Contains(so, "VSYM-ASSERT-FAILED "+ob.Label+"\n")
		if !ro.Reproduced {
			if strings.Contains(so, "VSYM-PANIC") || (rerr != nil && strings.Contains(so, "panic:")) {
				ro.Reproduced = true
				ro.Why = "native run panicked before the assertion"
			} else {
				ro.Why = "assertion holds natively for the model values"
			}
		}
	default:
		ro.Reproduced = strings.Contains(so, "VSYM-PANIC") || (rerr != nil && (strings.Contains(so, "panic:") || strings.Contains(so, "fatal error:")))
		if !ro.Reproduced {
			ro.Why = "no native panic for the model values"
		}
	}
	if ro.Reproduced {
		base := filepath.Join(outDir, hs.Name+"."+safe+".json")
		rp.mu.Lock()
		rp.kept[base]++
		rp.mu.Unlock()
	}
	return ro
}

func formatValue(v interface{}, s Sort) string {
	switch x := v.(type) {
	case bool:
		return strconv.FormatBool(x)
	case float64:
		switch {
		case x != x:
			return "NaN"
		case x > 1.7976931348623157e308:
			return "+Inf"
		case x < -1.7976931348623157e308:
			return "-Inf"
		}
		return strconv.FormatFloat(x, 'g', -1, 64)
	default:
		bi := x.(interface{ String() string })
		if s.IsBV() {
			return signedBV(v.(*big.Int), s.Bits()).String()
		}
		return bi.String()
	}
}

// probeCounterexample: models of the path condition alone (the first one plus several pushed
// greedily away from it); the driver evaluates the real code natively at these points.  This is
// a bug-hunting stage for obligations the solver could neither prove nor refute: a hit is a
// violation confirmed by native execution, a miss leaves the obligation INCONCLUSIVE.
func probeCounterexample(ss *scriptSolver, ob *Obligation, seed int) []Model {
	script := ob.Script
	cs := strings.LastIndex(script, "(check-sat)")
	if cs < 0 {
		return nil
	}
	body := script[:cs]
	la := strings.LastIndex(body, "(assert ")
	if la < 0 {
		return nil
	}
	pcOnly := body[:la]
	var syms []string
	for name, srt := range ob.Vars {
		if strings.HasPrefix(name, "sym:") && (srt == SReal || srt == SInt) {
			syms = append(syms, name)
		}
	}
	sort.Strings(syms)
	if len(syms) == 0 {
		return nil
	}
	rnd := uint32(seed*2654435761 + 12345)
	next := func() uint32 { rnd = rnd*1664525 + 1013904223; return rnd >> 8 }
	res, m0 := ss.Run(pcOnly+"(check-sat)\n", ob.Vars, 10000, seed)
	if res != "sat" || m0 == nil {
		return nil
	}
	models := []Model{m0}
	// push every symbol away from the first (typically boundary/zero) model, greedily
	for _, off := range []string{"1.0", "25.0"} {
		extra := ""
		last := m0
		for _, v := range syms {
			raw, ok := m0[v]
			if !ok || strings.Contains(raw, "?") {
				continue
			}
			tried := false
			for _, c := range []string{
				fmt.Sprintf("(assert (> %s (+ %s %s)))\n", smtSym(v), raw, off),
				fmt.Sprintf("(assert (< %s (- %s %s)))\n", smtSym(v), raw, off),
				fmt.Sprintf("(assert (> %s %s))\n", smtSym(v), raw),
			} {
				if ob.Vars[v] == SInt {
					c = strings.ReplaceAll(c, off, strings.TrimSuffix(strings.TrimSuffix(off, ".0"), ".125"))
					if strings.Contains(c, "( )") || strings.Contains(c, "+ "+raw+" )") {
						continue
					}
				}
				r, mk := ss.Run(pcOnly+extra+c+"(check-sat)\n", ob.Vars, 400, seed)
				if r == "sat" && mk != nil {
					extra += c
					last = mk
					tried = true
					break
				}
			}
			_ = tried
			_ = next
		}
		models = append(models, last)
	}
	return models
}
