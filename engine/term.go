package main

// Hash-consed term DAG with constant folding and an SMT-LIB2 printer.
// One TermStore per worker (no locking).

import (
	"fmt"
	"math"
	"math/big"
	"sort"
	"strconv"
	"strings"
)

type Sort int

const (
	SBool Sort = iota
	SInt       // mathematical integer (ints=math mode)
	SBV8
	SBV16
	SBV32
	SBV64
	SReal
	SFP32
	SFP64
)

func (s Sort) String() string {
	switch s {
	case SBool:
		return "Bool"
	case SInt:
		return "Int"
	case SBV8:
		return "(_ BitVec 8)"
	case SBV16:
		return "(_ BitVec 16)"
	case SBV32:
		return "(_ BitVec 32)"
	case SBV64:
		return "(_ BitVec 64)"
	case SReal:
		return "Real"
	case SFP32:
		return "(_ FloatingPoint 8 24)"
	case SFP64:
		return "(_ FloatingPoint 11 53)"
	}
	return "?"
}

func (s Sort) IsBV() bool { return s >= SBV8 && s <= SBV64 }
func (s Sort) IsFP() bool { return s == SFP32 || s == SFP64 }
func (s Sort) Bits() int {
	switch s {
	case SBV8:
		return 8
	case SBV16:
		return 16
	case SBV32:
		return 32
	case SBV64:
		return 64
	}
	return 0
}
func bvSort(bits int) Sort {
	switch bits {
	case 8:
		return SBV8
	case 16:
		return SBV16
	case 32:
		return SBV32
	}
	return SBV64
}

type Term struct {
	id   int
	op   string
	sort Sort
	args []*Term
	// payloads
	b    bool
	i    *big.Int // BV (stored unsigned, reduced mod 2^n) or Int const
	r    *big.Rat // Real const
	f    float64  // FP const
	name string   // var / uf name
	vars map[int]struct{}
}

func (t *Term) IsConst() bool { return t.op == "const" }
func (t *Term) IsTrue() bool  { return t.op == "const" && t.sort == SBool && t.b }
func (t *Term) IsFalse() bool { return t.op == "const" && t.sort == SBool && !t.b }

type TermStore struct {
	tab    map[string]*Term
	all    []*Term
	nextID int
	vars   []*Term // declared variables, in order of creation
	varIdx map[string]*Term
	ufs    map[string]string // name -> declaration
	ufList []string
	fresh  int
}

func NewTermStore() *TermStore {
	return &TermStore{tab: map[string]*Term{}, varIdx: map[string]*Term{}, ufs: map[string]string{}}
}

func (ts *TermStore) intern(t *Term) *Term {
	var sb strings.Builder
	sb.WriteString(t.op)
	sb.WriteByte('|')
	sb.WriteString(strconv.Itoa(int(t.sort)))
	for _, a := range t.args {
		sb.WriteByte(',')
		sb.WriteString(strconv.Itoa(a.id))
	}
	switch {
	case t.op == "const":
		sb.WriteByte('#')
		switch {
		case t.sort == SBool:
			if t.b {
				sb.WriteByte('T')
			} else {
				sb.WriteByte('F')
			}
		case t.sort == SInt || t.sort.IsBV():
			sb.WriteString(t.i.String())
		case t.sort == SReal:
			sb.WriteString(t.r.String())
		default:
			sb.WriteString(strconv.FormatUint(math.Float64bits(t.f), 16))
		}
	case t.name != "":
		sb.WriteByte('@')
		sb.WriteString(t.name)
	}
	k := sb.String()
	if old, ok := ts.tab[k]; ok {
		return old
	}
	t.id = ts.nextID
	ts.nextID++
	ts.tab[k] = t
	ts.all = append(ts.all, t)
	return t
}

// ---- constants ----

func (ts *TermStore) Bool(b bool) *Term { return ts.intern(&Term{op: "const", sort: SBool, b: b}) }
func (ts *TermStore) True() *Term       { return ts.Bool(true) }
func (ts *TermStore) False() *Term      { return ts.Bool(false) }

func normBV(v *big.Int, bits int) *big.Int {
	m := new(big.Int).Lsh(big.NewInt(1), uint(bits))
	r := new(big.Int).Mod(v, m)
	if r.Sign() < 0 {
		r.Add(r, m)
	}
	return r
}

func signedBV(v *big.Int, bits int) *big.Int {
	half := new(big.Int).Lsh(big.NewInt(1), uint(bits-1))
	if v.Cmp(half) >= 0 {
		return new(big.Int).Sub(v, new(big.Int).Lsh(big.NewInt(1), uint(bits)))
	}
	return new(big.Int).Set(v)
}

func (ts *TermStore) IntConst(s Sort, v *big.Int) *Term {
	if s.IsBV() {
		v = normBV(v, s.Bits())
	} else {
		v = new(big.Int).Set(v)
	}
	return ts.intern(&Term{op: "const", sort: s, i: v})
}
func (ts *TermStore) IntConst64(s Sort, v int64) *Term { return ts.IntConst(s, big.NewInt(v)) }

func (ts *TermStore) RealConst(r *big.Rat) *Term {
	return ts.intern(&Term{op: "const", sort: SReal, r: new(big.Rat).Set(r)})
}
func (ts *TermStore) FPConst(s Sort, f float64) *Term {
	if s == SFP32 {
		f = float64(float32(f))
	}
	return ts.intern(&Term{op: "const", sort: s, f: f})
}

// Float constant in the current float sort; Real uses shortest decimal.
func (ts *TermStore) FloatConst(s Sort, f float64) *Term {
	if s == SReal {
		if math.IsNaN(f) || math.IsInf(f, 0) {
			// not representable in R: fresh unconstrained symbol (stated in evidence)
			return ts.Fresh("nonfinite", SReal)
		}
		return ts.RealConst(ratFromFloatShortest(f))
	}
	return ts.FPConst(s, f)
}

func ratFromFloatShortest(f float64) *big.Rat {
	s := strconv.FormatFloat(f, 'g', -1, 64)
	r, ok := new(big.Rat).SetString(s)
	if !ok {
		r = new(big.Rat).SetFloat64(f)
	}
	return r
}

// ---- variables ----

func (ts *TermStore) Var(name string, s Sort) *Term {
	if v, ok := ts.varIdx[name]; ok {
		if v.sort != s {
			panic(fmt.Sprintf("variable %s redeclared with different sort", name))
		}
		return v
	}
	t := ts.intern(&Term{op: "var", sort: s, name: name})
	t.vars = map[int]struct{}{t.id: {}}
	ts.varIdx[name] = t
	ts.vars = append(ts.vars, t)
	return t
}

func (ts *TermStore) Fresh(prefix string, s Sort) *Term {
	ts.fresh++
	return ts.Var(fmt.Sprintf("%s!%d", prefix, ts.fresh), s)
}

// ---- generic constructor with simplification ----

func (ts *TermStore) mk(op string, s Sort, args ...*Term) *Term {
	t := ts.intern(&Term{op: op, sort: s, args: args})
	return t
}

func (ts *TermStore) mkNamed(op string, name string, s Sort, args ...*Term) *Term {
	return ts.intern(&Term{op: op, sort: s, args: args, name: name})
}

func (ts *TermStore) Not(a *Term) *Term {
	if a.IsConst() {
		return ts.Bool(!a.b)
	}
	if a.op == "not" {
		return a.args[0]
	}
	return ts.mk("not", SBool, a)
}

func (ts *TermStore) And(as ...*Term) *Term {
	var out []*Term
	seen := map[int]bool{}
	for _, a := range as {
		if a.IsTrue() {
			continue
		}
		if a.IsFalse() {
			return a
		}
		if a.op == "and" {
			for _, x := range a.args {
				if !seen[x.id] {
					seen[x.id] = true
					out = append(out, x)
				}
			}
			continue
		}
		if !seen[a.id] {
			seen[a.id] = true
			out = append(out, a)
		}
	}
	for _, a := range out {
		if a.op == "not" && seen[a.args[0].id] {
			return ts.False()
		}
	}
	if len(out) == 0 {
		return ts.True()
	}
	if len(out) == 1 {
		return out[0]
	}
	return ts.mk("and", SBool, out...)
}

func (ts *TermStore) Or(as ...*Term) *Term {
	var out []*Term
	seen := map[int]bool{}
	for _, a := range as {
		if a.IsFalse() {
			continue
		}
		if a.IsTrue() {
			return a
		}
		if a.op == "or" {
			for _, x := range a.args {
				if !seen[x.id] {
					seen[x.id] = true
					out = append(out, x)
				}
			}
			continue
		}
		if !seen[a.id] {
			seen[a.id] = true
			out = append(out, a)
		}
	}
	for _, a := range out {
		if a.op == "not" && seen[a.args[0].id] {
			return ts.True()
		}
	}
	if len(out) == 0 {
		return ts.False()
	}
	if len(out) == 1 {
		return out[0]
	}
	return ts.mk("or", SBool, out...)
}

func (ts *TermStore) Implies(a, b *Term) *Term { return ts.Or(ts.Not(a), b) }

func (ts *TermStore) Ite(c, a, b *Term) *Term {
	if c.IsTrue() {
		return a
	}
	if c.IsFalse() {
		return b
	}
	if a == b {
		return a
	}
	if a.sort != b.sort {
		panic(fmt.Sprintf("ite sort mismatch %v %v", a.sort, b.sort))
	}
	if a.sort == SBool {
		if a.IsTrue() && b.IsFalse() {
			return c
		}
		if a.IsFalse() && b.IsTrue() {
			return ts.Not(c)
		}
		if a.IsTrue() {
			return ts.Or(c, b)
		}
		if a.IsFalse() {
			return ts.And(ts.Not(c), b)
		}
		if b.IsTrue() {
			return ts.Or(ts.Not(c), a)
		}
		if b.IsFalse() {
			return ts.And(c, a)
		}
	}
	if c.op == "not" {
		return ts.Ite(c.args[0], b, a)
	}
	// ite(c, x, ite(c, y, z)) = ite(c, x, z)
	if b.op == "ite" && b.args[0] == c {
		return ts.Ite(c, a, b.args[2])
	}
	if a.op == "ite" && a.args[0] == c {
		return ts.Ite(c, a.args[1], b)
	}
	return ts.mk("ite", a.sort, c, a, b)
}

func (ts *TermStore) Eq(a, b *Term) *Term {
	if a.sort != b.sort {
		panic(fmt.Sprintf("eq sort mismatch %v %v (%s, %s)", a.sort, b.sort, a.op, b.op))
	}
	if a == b {
		if a.sort.IsFP() {
			// NaN != NaN; only fold for non-NaN constants
			if a.IsConst() && !math.IsNaN(a.f) {
				return ts.True()
			}
			if a.IsConst() {
				return ts.False()
			}
			return ts.mk("feq", SBool, a, b)
		}
		return ts.True()
	}
	if a.IsConst() && b.IsConst() {
		switch {
		case a.sort == SBool:
			return ts.Bool(a.b == b.b)
		case a.sort == SInt || a.sort.IsBV():
			return ts.Bool(a.i.Cmp(b.i) == 0)
		case a.sort == SReal:
			return ts.Bool(a.r.Cmp(b.r) == 0)
		default:
			return ts.Bool(a.f == b.f)
		}
	}
	if a.sort.IsFP() {
		if a.id > b.id {
			a, b = b, a
		}
		return ts.mk("feq", SBool, a, b)
	}
	if a.sort == SBool {
		if a.IsConst() {
			a, b = b, a
		}
		if b.IsTrue() {
			return a
		}
		if b.IsFalse() {
			return ts.Not(a)
		}
	}
	if a.id > b.id {
		a, b = b, a
	}
	return ts.mk("=", SBool, a, b)
}

// structural (bit-identical) equality for FP: used for "bit-identical" assertions
func (ts *TermStore) SameBits(a, b *Term) *Term {
	if !a.sort.IsFP() {
		return ts.Eq(a, b)
	}
	if a == b {
		return ts.True()
	}
	if a.IsConst() && b.IsConst() {
		return ts.Bool(math.Float64bits(a.f) == math.Float64bits(b.f))
	}
	return ts.mk("=", SBool, a, b)
}

// ---- integer arithmetic ----

func bigBin(op string, a, b *big.Int, s Sort) (*big.Int, bool) {
	bits := s.Bits()
	sa, sb := a, b
	if s.IsBV() {
		sa, sb = signedBV(a, bits), signedBV(b, bits)
	}
	switch op {
	case "add":
		return new(big.Int).Add(a, b), true
	case "sub":
		return new(big.Int).Sub(a, b), true
	case "mul":
		return new(big.Int).Mul(a, b), true
	case "sdiv":
		if sb.Sign() == 0 {
			return nil, false
		}
		return new(big.Int).Quo(sa, sb), true
	case "srem":
		if sb.Sign() == 0 {
			return nil, false
		}
		return new(big.Int).Rem(sa, sb), true
	case "udiv":
		if b.Sign() == 0 {
			return nil, false
		}
		return new(big.Int).Quo(a, b), true
	case "urem":
		if b.Sign() == 0 {
			return nil, false
		}
		return new(big.Int).Rem(a, b), true
	case "band":
		return new(big.Int).And(a, b), true
	case "bor":
		return new(big.Int).Or(a, b), true
	case "bxor":
		return new(big.Int).Xor(a, b), true
	case "shl":
		if b.BitLen() > 16 {
			return big.NewInt(0), true
		}
		return new(big.Int).Lsh(a, uint(b.Uint64())), true
	case "lshr":
		if b.BitLen() > 16 {
			return big.NewInt(0), true
		}
		return new(big.Int).Rsh(a, uint(b.Uint64())), true
	case "ashr":
		if b.BitLen() > 16 {
			if sa.Sign() < 0 {
				return big.NewInt(-1), true
			}
			return big.NewInt(0), true
		}
		return new(big.Int).Rsh(sa, uint(b.Uint64())), true
	}
	return nil, false
}

func (ts *TermStore) isZero(a *Term) bool {
	if !a.IsConst() {
		return false
	}
	switch {
	case a.sort == SInt || a.sort.IsBV():
		return a.i.Sign() == 0
	case a.sort == SReal:
		return a.r.Sign() == 0
	}
	return false
}
func (ts *TermStore) isOne(a *Term) bool {
	if !a.IsConst() {
		return false
	}
	switch {
	case a.sort == SInt || a.sort.IsBV():
		return a.i.Cmp(big.NewInt(1)) == 0
	case a.sort == SReal:
		return a.r.Cmp(big.NewRat(1, 1)) == 0
	}
	return false
}

// IntOp: add sub mul sdiv srem udiv urem band bor bxor shl lshr ashr
func (ts *TermStore) IntOp(op string, a, b *Term) *Term {
	if a.sort != b.sort {
		panic(fmt.Sprintf("intop %s sort mismatch %v %v", op, a.sort, b.sort))
	}
	s := a.sort
	if a.IsConst() && b.IsConst() {
		if r, ok := bigBin(op, a.i, b.i, s); ok {
			return ts.IntConst(s, r)
		}
	}
	switch op {
	case "add":
		if ts.isZero(a) {
			return b
		}
		if ts.isZero(b) {
			return a
		}
		if a.IsConst() { // canonical: constant last
			a, b = b, a
		}
		// (x + c1) + c2
		if b.IsConst() && a.op == "add" && a.args[1].IsConst() {
			return ts.IntOp("add", a.args[0], ts.IntOp("add", a.args[1], b))
		}
	case "sub":
		if ts.isZero(b) {
			return a
		}
		if a == b {
			return ts.IntConst64(s, 0)
		}
		if b.IsConst() {
			return ts.IntOp("add", a, ts.IntConst(s, new(big.Int).Neg(signedOrInt(b))))
		}
	case "mul":
		if ts.isZero(a) || ts.isZero(b) {
			return ts.IntConst64(s, 0)
		}
		if ts.isOne(a) {
			return b
		}
		if ts.isOne(b) {
			return a
		}
		if a.IsConst() {
			a, b = b, a
		}
	case "sdiv", "udiv":
		if ts.isOne(b) {
			return a
		}
	case "srem", "urem":
		if ts.isOne(b) {
			return ts.IntConst64(s, 0)
		}
	}
	return ts.mk(op, s, a, b)
}

func signedOrInt(t *Term) *big.Int {
	if t.sort.IsBV() {
		return signedBV(t.i, t.sort.Bits())
	}
	return t.i
}

func (ts *TermStore) IntNeg(a *Term) *Term {
	return ts.IntOp("sub", ts.IntConst64(a.sort, 0), a)
}

func (ts *TermStore) BNot(a *Term) *Term {
	if a.IsConst() {
		return ts.IntConst(a.sort, new(big.Int).Not(a.i))
	}
	return ts.mk("bnot", a.sort, a)
}

// IntCmp: slt sle ult ule  (sgt etc. are expressed by swapping)
func (ts *TermStore) IntCmp(op string, a, b *Term) *Term {
	if a.sort != b.sort {
		panic(fmt.Sprintf("intcmp %s sort mismatch %v %v", op, a.sort, b.sort))
	}
	if a.IsConst() && b.IsConst() {
		x, y := a.i, b.i
		if op[0] == 's' {
			x, y = signedOrInt(a), signedOrInt(b)
		}
		c := x.Cmp(y)
		if op[1:] == "lt" {
			return ts.Bool(c < 0)
		}
		return ts.Bool(c <= 0)
	}
	if a == b {
		return ts.Bool(op[1:] == "le")
	}
	if a.sort == SInt {
		op = "s" + op[1:]
	}
	return ts.mk(op, SBool, a, b)
}

// width conversion between integer sorts
func (ts *TermStore) IntConv(a *Term, to Sort, signed bool) *Term {
	if a.sort == to {
		return a
	}
	if a.IsConst() {
		v := a.i
		if a.sort.IsBV() && signed {
			v = signedBV(a.i, a.sort.Bits())
		}
		return ts.IntConst(to, v)
	}
	if a.sort == SInt && to.IsBV() {
		return ts.mk("int2bv", to, a)
	}
	if a.sort.IsBV() && to == SInt {
		if signed {
			return ts.mk("sbv2int", to, a)
		}
		return ts.mk("ubv2int", to, a)
	}
	fb, tb := a.sort.Bits(), to.Bits()
	if tb < fb {
		return ts.mk("trunc", to, a)
	}
	if signed {
		return ts.mk("sext", to, a)
	}
	return ts.mk("zext", to, a)
}

// ---- float arithmetic (Real or FP) ----

func (ts *TermStore) FOp(op string, a, b *Term) *Term {
	if a.sort != b.sort {
		panic(fmt.Sprintf("fop %s sort mismatch %v %v", op, a.sort, b.sort))
	}
	s := a.sort
	if s == SReal {
		if a.IsConst() && b.IsConst() {
			switch op {
			case "fadd":
				return ts.RealConst(new(big.Rat).Add(a.r, b.r))
			case "fsub":
				return ts.RealConst(new(big.Rat).Sub(a.r, b.r))
			case "fmul":
				return ts.RealConst(new(big.Rat).Mul(a.r, b.r))
			case "fdiv":
				if b.r.Sign() != 0 {
					return ts.RealConst(new(big.Rat).Quo(a.r, b.r))
				}
			}
		}
		switch op {
		case "fadd":
			if ts.isZero(a) {
				return b
			}
			if ts.isZero(b) {
				return a
			}
		case "fsub":
			if ts.isZero(b) {
				return a
			}
			if a == b {
				return ts.RealConst(big.NewRat(0, 1))
			}
		case "fmul":
			if ts.isZero(a) || ts.isZero(b) {
				return ts.RealConst(big.NewRat(0, 1))
			}
			if ts.isOne(a) {
				return b
			}
			if ts.isOne(b) {
				return a
			}
		case "fdiv":
			if ts.isOne(b) {
				return a
			}
			if b.IsConst() && b.r.Sign() != 0 {
				return ts.FOp("fmul", a, ts.RealConst(new(big.Rat).Inv(b.r)))
			}
		}
		return ts.mk(op, s, a, b)
	}
	if a.IsConst() && b.IsConst() {
		var r float64
		if s == SFP32 {
			x, y := float32(a.f), float32(b.f)
			switch op {
			case "fadd":
				r = float64(x + y)
			case "fsub":
				r = float64(x - y)
			case "fmul":
				r = float64(x * y)
			case "fdiv":
				r = float64(x / y)
			}
		} else {
			switch op {
			case "fadd":
				r = a.f + b.f
			case "fsub":
				r = a.f - b.f
			case "fmul":
				r = a.f * b.f
			case "fdiv":
				r = a.f / b.f
			}
		}
		return ts.FPConst(s, r)
	}
	return ts.mk(op, s, a, b)
}

func (ts *TermStore) FNeg(a *Term) *Term {
	if a.IsConst() {
		if a.sort == SReal {
			return ts.RealConst(new(big.Rat).Neg(a.r))
		}
		return ts.FPConst(a.sort, -a.f)
	}
	if a.op == "fneg" {
		return a.args[0]
	}
	return ts.mk("fneg", a.sort, a)
}

// FCmp: flt fle
func (ts *TermStore) FCmp(op string, a, b *Term) *Term {
	if a.sort != b.sort {
		panic(fmt.Sprintf("fcmp %s sort mismatch %v %v", op, a.sort, b.sort))
	}
	if a.IsConst() && b.IsConst() {
		if a.sort == SReal {
			c := a.r.Cmp(b.r)
			if op == "flt" {
				return ts.Bool(c < 0)
			}
			return ts.Bool(c <= 0)
		}
		if op == "flt" {
			return ts.Bool(a.f < b.f)
		}
		return ts.Bool(a.f <= b.f)
	}
	if a == b && a.sort == SReal {
		return ts.Bool(op == "fle")
	}
	return ts.mk(op, SBool, a, b)
}

// int -> float
func (ts *TermStore) I2F(a *Term, to Sort, signed bool) *Term {
	if a.IsConst() {
		v := a.i
		if a.sort.IsBV() && signed {
			v = signedBV(a.i, a.sort.Bits())
		}
		if to == SReal {
			return ts.RealConst(new(big.Rat).SetInt(v))
		}
		f, _ := new(big.Float).SetInt(v).Float64()
		return ts.FPConst(to, f)
	}
	if signed {
		return ts.mk("si2f", to, a)
	}
	return ts.mk("ui2f", to, a)
}

// float -> int (truncation toward zero)
func (ts *TermStore) F2I(a *Term, to Sort, signed bool) *Term {
	if a.IsConst() {
		if a.sort == SReal {
			q := new(big.Int).Quo(a.r.Num(), a.r.Denom()) // truncates toward zero
			return ts.IntConst(to, q)
		}
		if !math.IsNaN(a.f) && !math.IsInf(a.f, 0) {
			bf := new(big.Float).SetFloat64(math.Trunc(a.f))
			bi, _ := bf.Int(nil)
			return ts.IntConst(to, bi)
		}
	}
	if a.op == "si2f" && a.args[0].sort == to {
		return a.args[0]
	}
	if signed {
		return ts.mk("f2si", to, a)
	}
	return ts.mk("f2ui", to, a)
}

func (ts *TermStore) F2F(a *Term, to Sort) *Term {
	if a.sort == to {
		return a
	}
	if a.IsConst() && a.sort.IsFP() && to.IsFP() {
		return ts.FPConst(to, a.f)
	}
	return ts.mk("f2f", to, a)
}

// Floor / Ceil on reals (result Real)
func (ts *TermStore) RFloor(a *Term) *Term {
	if a.IsConst() && a.sort == SReal {
		n, d := a.r.Num(), a.r.Denom()
		q := new(big.Int).Div(n, d) // Euclidean; d>0 => floor
		return ts.RealConst(new(big.Rat).SetInt(q))
	}
	return ts.mk("floor", a.sort, a)
}

func (ts *TermStore) UF(name string, ret Sort, args ...*Term) *Term {
	if _, ok := ts.ufs[name]; !ok {
		var as []string
		for _, a := range args {
			as = append(as, a.sort.String())
		}
		ts.ufs[name] = fmt.Sprintf("(declare-fun %s (%s) %s)", smtSym(name), strings.Join(as, " "), ret)
		ts.ufList = append(ts.ufList, name)
	}
	return ts.mkNamed("uf", name, ret, args...)
}

// ---- variable sets (for independence slicing) ----

func (ts *TermStore) VarsOf(t *Term) map[int]struct{} {
	if t.vars != nil {
		return t.vars
	}
	if len(t.args) == 0 {
		t.vars = map[int]struct{}{}
		return t.vars
	}
	if len(t.args) == 1 {
		t.vars = ts.VarsOf(t.args[0])
		return t.vars
	}
	m := map[int]struct{}{}
	for _, a := range t.args {
		for k := range ts.VarsOf(a) {
			m[k] = struct{}{}
		}
	}
	t.vars = m
	return m
}

// ---- printing ----

func smtSym(s string) string {
	ok := true
	for _, c := range s {
		if !(c >= 'a' && c <= 'z' || c >= 'A' && c <= 'Z' || c >= '0' && c <= '9' || c == '_' || c == '.' || c == '!' || c == '$') {
			ok = false
			break
		}
	}
	if ok && len(s) > 0 && !(s[0] >= '0' && s[0] <= '9') {
		return s
	}
	return "|" + strings.ReplaceAll(s, "|", "_") + "|"
}

func ratSMT(r *big.Rat) string {
	neg := r.Sign() < 0
	a := new(big.Rat).Abs(r)
	var s string
	if a.IsInt() {
		s = a.Num().String() + ".0"
	} else {
		s = "(/ " + a.Num().String() + ".0 " + a.Denom().String() + ".0)"
	}
	if neg {
		return "(- " + s + ")"
	}
	return s
}

func intSMT(v *big.Int) string {
	if v.Sign() < 0 {
		return "(- " + new(big.Int).Neg(v).String() + ")"
	}
	return v.String()
}

func fpSMT(s Sort, f float64) string {
	eb, sb := 11, 53
	if s == SFP32 {
		eb, sb = 8, 24
	}
	switch {
	case math.IsNaN(f):
		return fmt.Sprintf("(_ NaN %d %d)", eb, sb)
	case math.IsInf(f, 1):
		return fmt.Sprintf("(_ +oo %d %d)", eb, sb)
	case math.IsInf(f, -1):
		return fmt.Sprintf("(_ -oo %d %d)", eb, sb)
	}
	if s == SFP32 {
		b := math.Float32bits(float32(f))
		return fmt.Sprintf("(fp #b%01b #b%08b #b%023b)", b>>31, (b>>23)&0xff, b&0x7fffff)
	}
	b := math.Float64bits(f)
	return fmt.Sprintf("(fp #b%01b #b%011b #b%052b)", b>>63, (b>>52)&0x7ff, b&0xfffffffffffff)
}

// name of the definition for a non-leaf term
func defName(t *Term) string { return "t" + strconv.Itoa(t.id) }

// ref returns how a term is referenced inside another term
func (ts *TermStore) ref(t *Term) string {
	switch t.op {
	case "const":
		switch {
		case t.sort == SBool:
			if t.b {
				return "true"
			}
			return "false"
		case t.sort == SInt:
			return intSMT(t.i)
		case t.sort.IsBV():
			return fmt.Sprintf("(_ bv%s %d)", t.i.String(), t.sort.Bits())
		case t.sort == SReal:
			return ratSMT(t.r)
		default:
			return fpSMT(t.sort, t.f)
		}
	case "var":
		return smtSym(t.name)
	}
	return defName(t)
}

// body prints the defining expression of a non-leaf term (args by reference)
func (ts *TermStore) body(t *Term) string {
	a := func(i int) string { return ts.ref(t.args[i]) }
	bin := func(op string) string { return "(" + op + " " + a(0) + " " + a(1) + ")" }
	nary := func(op string) string {
		var sb strings.Builder
		sb.WriteString("(" + op)
		for i := range t.args {
			sb.WriteString(" " + a(i))
		}
		sb.WriteString(")")
		return sb.String()
	}
	as := Sort(-1)
	if len(t.args) > 0 {
		as = t.args[0].sort
	}
	switch t.op {
	case "not":
		return "(not " + a(0) + ")"
	case "and", "or":
		return nary(t.op)
	case "ite":
		return nary("ite")
	case "=":
		return bin("=")
	case "feq":
		return bin("fp.eq")
	case "add", "sub", "mul":
		if as == SInt {
			return bin(map[string]string{"add": "+", "sub": "-", "mul": "*"}[t.op])
		}
		return bin("bv" + t.op)
	case "sdiv":
		if as == SInt {
			return bin("tdiv")
		}
		return bin("bvsdiv")
	case "srem":
		if as == SInt {
			return bin("tmod")
		}
		return bin("bvsrem")
	case "udiv":
		if as == SInt {
			return bin("tdiv")
		}
		return bin("bvudiv")
	case "urem":
		if as == SInt {
			return bin("tmod")
		}
		return bin("bvurem")
	case "emod":
		return bin("mod")
	case "band":
		return bin("bvand")
	case "bor":
		return bin("bvor")
	case "bxor":
		return bin("bvxor")
	case "bnot":
		return "(bvnot " + a(0) + ")"
	case "shl":
		return bin("bvshl")
	case "lshr":
		return bin("bvlshr")
	case "ashr":
		return bin("bvashr")
	case "slt":
		if as == SInt {
			return bin("<")
		}
		return bin("bvslt")
	case "sle":
		if as == SInt {
			return bin("<=")
		}
		return bin("bvsle")
	case "ult":
		return bin("bvult")
	case "ule":
		return bin("bvule")
	case "trunc":
		return fmt.Sprintf("((_ extract %d 0) %s)", t.sort.Bits()-1, a(0))
	case "sext":
		return fmt.Sprintf("((_ sign_extend %d) %s)", t.sort.Bits()-as.Bits(), a(0))
	case "zext":
		return fmt.Sprintf("((_ zero_extend %d) %s)", t.sort.Bits()-as.Bits(), a(0))
	case "int2bv":
		return fmt.Sprintf("((_ int2bv %d) %s)", t.sort.Bits(), a(0))
	case "ubv2int":
		return "(bv2nat " + a(0) + ")"
	case "sbv2int":
		n := as.Bits()
		return fmt.Sprintf("(let ((u (bv2nat %s))) (ite (bvslt %s (_ bv0 %d)) (- u %s) u))", a(0), a(0), n, new(big.Int).Lsh(big.NewInt(1), uint(n)).String())
	case "fadd", "fsub", "fmul", "fdiv":
		if t.sort == SReal {
			return bin(map[string]string{"fadd": "+", "fsub": "-", "fmul": "*", "fdiv": "/"}[t.op])
		}
		return "(fp." + t.op[1:] + " RNE " + a(0) + " " + a(1) + ")"
	case "fneg":
		if t.sort == SReal {
			return "(- " + a(0) + ")"
		}
		return "(fp.neg " + a(0) + ")"
	case "flt":
		if as == SReal {
			return bin("<")
		}
		return bin("fp.lt")
	case "fle":
		if as == SReal {
			return bin("<=")
		}
		return bin("fp.leq")
	case "si2f", "ui2f":
		if t.sort == SReal {
			if as == SInt {
				return "(to_real " + a(0) + ")"
			}
			if t.op == "ui2f" {
				return "(to_real (bv2nat " + a(0) + "))"
			}
			n := as.Bits()
			return fmt.Sprintf("(to_real (let ((u (bv2nat %s))) (ite (bvslt %s (_ bv0 %d)) (- u %s) u)))", a(0), a(0), n, new(big.Int).Lsh(big.NewInt(1), uint(n)).String())
		}
		eb, sb := 11, 53
		if t.sort == SFP32 {
			eb, sb = 8, 24
		}
		if as == SInt {
			return fmt.Sprintf("((_ to_fp %d %d) RNE (to_real %s))", eb, sb, a(0))
		}
		if t.op == "ui2f" {
			return fmt.Sprintf("((_ to_fp_unsigned %d %d) RNE %s)", eb, sb, a(0))
		}
		return fmt.Sprintf("((_ to_fp %d %d) RNE %s)", eb, sb, a(0))
	case "f2si", "f2ui":
		if as == SReal {
			tr := "(rtrunc " + a(0) + ")"
			if t.sort == SInt {
				return tr
			}
			return fmt.Sprintf("((_ int2bv %d) %s)", t.sort.Bits(), tr)
		}
		if t.sort == SInt {
			return "(rtrunc (fp.to_real " + a(0) + "))"
		}
		if t.op == "f2ui" {
			return fmt.Sprintf("((_ fp.to_ubv %d) RTZ %s)", t.sort.Bits(), a(0))
		}
		return fmt.Sprintf("((_ fp.to_sbv %d) RTZ %s)", t.sort.Bits(), a(0))
	case "f2f":
		if t.sort == SReal {
			return "(fp.to_real " + a(0) + ")"
		}
		eb, sb := 11, 53
		if t.sort == SFP32 {
			eb, sb = 8, 24
		}
		return fmt.Sprintf("((_ to_fp %d %d) RNE %s)", eb, sb, a(0))
	case "floor":
		if t.sort == SReal {
			return "(to_real (to_int " + a(0) + "))"
		}
		return "(fp.roundToIntegral RTN " + a(0) + ")"
	case "ceil":
		return "(fp.roundToIntegral RTP " + a(0) + ")"
	case "fabs":
		return "(fp.abs " + a(0) + ")"
	case "fmin":
		return "(fp.min " + a(0) + " " + a(1) + ")"
	case "fmax":
		return "(fp.max " + a(0) + " " + a(1) + ")"
	case "fsqrt":
		return "(fp.sqrt RNE " + a(0) + ")"
	case "fisnan":
		return "(fp.isNaN " + a(0) + ")"
	case "fisinf":
		return "(fp.isInfinite " + a(0) + ")"
	case "fisneg":
		return "(fp.isNegative " + a(0) + ")"
	case "uf":
		if len(t.args) == 0 {
			return smtSym(t.name)
		}
		return nary(smtSym(t.name))
	}
	panic("print: unknown op " + t.op)
}

const smtPrelude = `(define-fun tdiv ((a Int) (b Int)) Int (ite (>= a 0) (ite (> b 0) (div a b) (- (div a (- b)))) (ite (> b 0) (- (div (- a) b)) (div (- a) (- b)))))
(define-fun tmod ((a Int) (b Int)) Int (- a (* b (tdiv a b))))
(define-fun rtrunc ((x Real)) Int (ite (>= x 0.0) (to_int x) (- (to_int (- x)))))
`

// Emitter keeps track of which definitions a given solver process has seen.
type Emitter struct {
	ts      *TermStore
	defined map[int]bool
	nvars   int
	nufs    int
}

func NewEmitter(ts *TermStore) *Emitter { return &Emitter{ts: ts, defined: map[int]bool{}} }

// Define writes all declarations/definitions needed for t (not yet sent) to sb.
func (e *Emitter) Define(sb *strings.Builder, t *Term) {
	for e.nufs < len(e.ts.ufList) {
		sb.WriteString(e.ts.ufs[e.ts.ufList[e.nufs]])
		sb.WriteByte('\n')
		e.nufs++
	}
	e.define(sb, t)
}

func (e *Emitter) define(sb *strings.Builder, t *Term) {
	if e.defined[t.id] {
		return
	}
	// iterative post-order to avoid deep recursion
	type fr struct {
		t *Term
		i int
	}
	stack := []fr{{t, 0}}
	for len(stack) > 0 {
		top := &stack[len(stack)-1]
		if e.defined[top.t.id] {
			stack = stack[:len(stack)-1]
			continue
		}
		if top.i < len(top.t.args) {
			c := top.t.args[top.i]
			top.i++
			if !e.defined[c.id] {
				stack = append(stack, fr{c, 0})
			}
			continue
		}
		x := top.t
		stack = stack[:len(stack)-1]
		e.defined[x.id] = true
		switch x.op {
		case "const":
		case "var":
			fmt.Fprintf(sb, "(declare-const %s %s)\n", smtSym(x.name), x.sort)
		default:
			fmt.Fprintf(sb, "(define-fun %s () %s %s)\n", defName(x), x.sort, e.ts.body(x))
		}
	}
}

// Standalone script for a set of assertions (for dumping / second solver).
func (ts *TermStore) Script(asserts []*Term, getValues []*Term) string {
	var sb strings.Builder
	sb.WriteString(smtPrelude)
	e := NewEmitter(ts)
	for _, a := range asserts {
		e.Define(&sb, a)
	}
	for _, a := range getValues {
		e.Define(&sb, a)
	}
	for _, a := range asserts {
		fmt.Fprintf(&sb, "(assert %s)\n", ts.ref(a))
	}
	sb.WriteString("(check-sat)\n")
	if len(getValues) > 0 {
		sb.WriteString("(get-value (")
		for _, v := range getValues {
			sb.WriteString(ts.ref(v) + " ")
		}
		sb.WriteString("))\n")
	}
	return sb.String()
}

// debug rendering (infix-ish, inlined, depth-limited)
func (ts *TermStore) Show(t *Term, depth int) string {
	if t.op == "const" || t.op == "var" {
		return ts.ref(t)
	}
	if depth <= 0 {
		return "…"
	}
	var parts []string
	for _, a := range t.args {
		parts = append(parts, ts.Show(a, depth-1))
	}
	op := t.op
	if t.name != "" {
		op = t.name
	}
	return "(" + op + " " + strings.Join(parts, " ") + ")"
}

func sortedVarNames(ts *TermStore, ids map[int]struct{}) []string {
	var out []string
	for _, v := range ts.vars {
		if _, ok := ids[v.id]; ok {
			out = append(out, v.name)
		}
	}
	sort.Strings(out)
	return out
}
