#!/bin/bash
# usage: ./replay.sh <replay.json> [--repo DIR]
# Re-executes a recorded counterexample natively against the current tree (the harness compiled
# with go test -overlay, symbols read from the file).  Exit 1 if the recorded obligation fails.
set -u
cd "$(dirname "$0")"
export GOFLAGS=-mod=mod GOPROXY=off GOSUMDB=off GOTOOLCHAIN=local
F="$1"; shift
if [ ! -x bin/gosmt ] || [ -n "$(find engine -name '*.go' -newer bin/gosmt 2>/dev/null | head -1)" ]; then
  ./setup.sh >/dev/null 2>&1 || { echo "BROKEN-CHECK: engine build failed"; exit 2; }
fi
exec ./bin/gosmt replay "$F" "$@"
