// Package hdf5 is an in-memory MODEL of the subset of gonum.org/v1/hdf5 that openwater-core
// uses.  libhdf5 is not installed in the verification image, so this package stands in for it:
// it is the stated environment model of the HDF5 library (files are a process-wide map of
// named datasets; hyperslab selection follows the HDF5 definition: for every dimension the
// selected indices are offset + i*stride + j for i < count, j < block).  It is executed both
// by the symbolic engine and by native replays.  It is NOT code under test.
package hdf5

import (
	"errors"
	"reflect"
	"strings"
)

const (
	F_ACC_RDONLY = 0
	F_ACC_RDWR   = 1
	F_ACC_TRUNC  = 2

	P_DATASET_CREATE = 1
	DefaultCompression = 6
)

type GType int

const (
	H5G_UNKNOWN GType = -1
	H5G_GROUP   GType = 0
	H5G_DATASET GType = 1
	H5G_TYPE    GType = 2
	H5G_LINK    GType = 3
)

type dsData struct {
	shape []uint
	kind  string
	f64   []float64
	f32   []float32
	i32   []int32
	u32   []uint32
	i64   []int64
	u64   []uint64
	i     []int
	u     []uint
	gotype reflect.Type
	text   []byte
	width  int
}

type fileData struct {
	name     string
	datasets map[string]*dsData
	order    []string
	groups   map[string]bool
}

// Files is the process-wide "file system" of the model.
var Files = map[string]*fileData{}

// Calls records, in order, the library calls that change a file (for the harnesses).
var Calls []string

// FailNext makes the next call of the named function fail (environment nondeterminism).
var FailNext = map[string]bool{}

func Reset() {
	Files = map[string]*fileData{}
	Calls = nil
	FailNext = map[string]bool{}
}

func fail(name string) bool {
	if FailNext[name] {
		FailNext[name] = false
		return true
	}
	return false
}

func DisplayErrors(on bool) error { return nil }

type File struct{ d *fileData }
type Group struct {
	f    *fileData
	path string
}
type Dataset struct {
	d    *dsData
	path string
}
type Dataspace struct {
	dims                         []uint
	selected                     bool
	offset, stride, count, block []uint
}
type Datatype struct {
	t    reflect.Type
	size uint
}
type PropList struct{}

func OpenFile(name string, flags int) (*File, error) {
	if fail("OpenFile") {
		return nil, errors.New("cannot open file")
	}
	d, ok := Files[name]
	if !ok {
		return nil, errors.New("no such file")
	}
	return &File{d}, nil
}

func CreateFile(name string, flags int) (*File, error) {
	if fail("CreateFile") {
		return nil, errors.New("cannot create file")
	}
	Calls = append(Calls, "CreateFile")
	d := &fileData{name: name, datasets: map[string]*dsData{}, groups: map[string]bool{"/": true}}
	Files[name] = d
	return &File{d}, nil
}

// Exists is used by the model of os.Stat in the harness environment.
func Exists(name string) bool { _, ok := Files[name]; return ok }

func (f *File) Close() error     { return nil }
func (f *File) FileName() string { return f.d.name }

func norm(p string) string {
	parts := strings.Split(p, "/")
	var out []string
	for _, s := range parts {
		if s != "" {
			out = append(out, s)
		}
	}
	return "/" + strings.Join(out, "/")
}

func join(a, b string) string { return norm(a + "/" + b) }

func (f *File) OpenDataset(name string) (*Dataset, error) {
	if fail("OpenDataset") {
		return nil, errors.New("cannot open dataset")
	}
	d, ok := f.d.datasets[norm(name)]
	if !ok {
		return nil, errors.New("no such dataset")
	}
	return &Dataset{d, norm(name)}, nil
}

func (f *File) OpenGroup(name string) (*Group, error) {
	if fail("OpenGroup") {
		return nil, errors.New("cannot open group")
	}
	if !f.d.groups[norm(name)] {
		return nil, errors.New("no such group")
	}
	return &Group{f.d, norm(name)}, nil
}

func (g *Group) Close() error { return nil }

func (g *Group) OpenGroup(name string) (*Group, error) {
	p := join(g.path, name)
	if !g.f.groups[p] {
		return nil, errors.New("no such group")
	}
	return &Group{g.f, p}, nil
}

func (g *Group) CreateGroup(name string) (*Group, error) {
	if fail("CreateGroup") {
		return nil, errors.New("cannot create group")
	}
	Calls = append(Calls, "CreateGroup")
	p := join(g.path, name)
	g.f.groups[p] = true
	return &Group{g.f, p}, nil
}

func size(dims []uint) int {
	n := 1
	for _, d := range dims {
		n *= int(d)
	}
	return n
}

func (g *Group) CreateDataset(name string, dtype *Datatype, space *Dataspace) (*Dataset, error) {
	if fail("CreateDataset") {
		return nil, errors.New("cannot create dataset")
	}
	Calls = append(Calls, "CreateDataset")
	p := join(g.path, name)
	d := &dsData{shape: append([]uint{}, space.dims...), gotype: dtype.t}
	g.f.datasets[p] = d
	g.f.order = append(g.f.order, p)
	return &Dataset{d, p}, nil
}

func (g *Group) CreateDatasetWith(name string, dtype *Datatype, space *Dataspace, dcpl *PropList) (*Dataset, error) {
	return g.CreateDataset(name, dtype, space)
}

func (g *Group) children() ([]string, []GType) {
	var names []string
	var kinds []GType
	for _, p := range g.f.order {
		if parent(p) == g.path {
			names = append(names, base(p))
			kinds = append(kinds, H5G_DATASET)
		}
	}
	for p := range g.f.groups {
		if p != "/" && parent(p) == g.path {
			names = append(names, base(p))
			kinds = append(kinds, H5G_GROUP)
		}
	}
	return names, kinds
}

func parent(p string) string {
	i := strings.LastIndex(p, "/")
	if i <= 0 {
		return "/"
	}
	return p[:i]
}
func base(p string) string { return p[strings.LastIndex(p, "/")+1:] }

func (g *Group) NumObjects() (uint, error) {
	n, _ := g.children()
	return uint(len(n)), nil
}
func (g *Group) ObjectNameByIndex(i uint) (string, error) {
	n, _ := g.children()
	if int(i) >= len(n) {
		return "", errors.New("index out of range")
	}
	return n[i], nil
}
func (g *Group) ObjectTypeByIndex(i uint) (GType, error) {
	_, k := g.children()
	if int(i) >= len(k) {
		return H5G_UNKNOWN, errors.New("index out of range")
	}
	return k[i], nil
}

func NewDataTypeFromType(t reflect.Type) (*Datatype, error) {
	if fail("NewDataTypeFromType") {
		return nil, errors.New("no matching datatype")
	}
	return &Datatype{t, 8}, nil
}
func (t *Datatype) Close() error         { return nil }
func (t *Datatype) GoType() reflect.Type { return t.t }
func (t *Datatype) Size() uint           { return t.size }

func NewPropList(cls int) (*PropList, error) {
	if fail("NewPropList") {
		return nil, errors.New("cannot create property list")
	}
	return &PropList{}, nil
}
func (p *PropList) Close() error             { return nil }
func (p *PropList) SetDeflate(level int) error { return nil }

func CreateSimpleDataspace(dims, maxDims []uint) (*Dataspace, error) {
	if fail("CreateSimpleDataspace") {
		return nil, errors.New("cannot create dataspace")
	}
	return &Dataspace{dims: append([]uint{}, dims...)}, nil
}

func (s *Dataspace) Close() error { return nil }
func (s *Dataspace) SimpleExtentDims() (dims, maxdims []uint, err error) {
	if fail("SimpleExtentDims") {
		return nil, nil, errors.New("cannot get extent")
	}
	return append([]uint{}, s.dims...), append([]uint{}, s.dims...), nil
}

func (s *Dataspace) SelectHyperslab(offset, stride, count, block []uint) error {
	if fail("SelectHyperslab") {
		return errors.New("cannot select hyperslab")
	}
	for i := range s.dims {
		if count[i] > 0 && block[i] > 0 {
			last := offset[i] + (count[i]-1)*stride[i] + block[i] - 1
			if last >= s.dims[i] {
				return errors.New("selection outside the dataspace extent")
			}
		}
	}
	s.selected = true
	s.offset, s.stride, s.count, s.block = offset, stride, count, block
	return nil
}

// selection: linear (row-major) element indices of the selected points, in row-major order
func (s *Dataspace) selection() []int {
	n := len(s.dims)
	if !s.selected {
		out := make([]int, size(s.dims))
		for i := range out {
			out[i] = i
		}
		return out
	}
	var perDim [][]int
	for d := 0; d < n; d++ {
		var idx []int
		for c := uint(0); c < s.count[d]; c++ {
			for b := uint(0); b < s.block[d]; b++ {
				idx = append(idx, int(s.offset[d]+c*s.stride[d]+b))
			}
		}
		perDim = append(perDim, idx)
	}
	out := []int{0}
	for d := 0; d < n; d++ {
		var next []int
		for _, base := range out {
			for _, i := range perDim[d] {
				next = append(next, base*int(s.dims[d])+i)
			}
		}
		out = next
	}
	return out
}

// PutText installs a fixed-width text dataset (environment set-up for harnesses).
func PutText(file, path string, vals []string, width int) {
	f, ok := Files[file]
	if !ok {
		f = &fileData{name: file, datasets: map[string]*dsData{}, groups: map[string]bool{"/": true}}
		Files[file] = f
	}
	d := &dsData{shape: []uint{uint(len(vals))}, kind: "text", width: width, gotype: reflect.TypeOf("")}
	d.text = make([]byte, len(vals)*width)
	for i, v := range vals {
		copy(d.text[i*width:(i+1)*width], v)
	}
	p := norm(path)
	f.datasets[p] = d
	f.order = append(f.order, p)
	for g := parent(p); ; g = parent(g) {
		f.groups[g] = true
		if g == "/" {
			break
		}
	}
}

// MakeGroup creates an (empty) group and its ancestors.
func MakeGroup(file, path string) {
	f, ok := Files[file]
	if !ok {
		f = &fileData{name: file, datasets: map[string]*dsData{}, groups: map[string]bool{"/": true}}
		Files[file] = f
	}
	for g := norm(path); ; g = parent(g) {
		f.groups[g] = true
		if g == "/" {
			break
		}
	}
}

func (d *Dataset) Close() error { return nil }
func (d *Dataset) Space() *Dataspace {
	return &Dataspace{dims: append([]uint{}, d.d.shape...)}
}
func (d *Dataset) Datatype() (*Datatype, error) {
	sz := uint(8)
	if d.d.kind == "text" {
		sz = uint(d.d.width)
	}
	return &Datatype{d.d.gotype, sz}, nil
}

func (d *Dataset) alloc(kind string) {
	if d.d.kind == kind {
		return
	}
	n := size(d.d.shape)
	d.d.kind = kind
	switch kind {
	case "f64":
		d.d.f64 = make([]float64, n)
	case "f32":
		d.d.f32 = make([]float32, n)
	case "i32":
		d.d.i32 = make([]int32, n)
	case "u32":
		d.d.u32 = make([]uint32, n)
	case "i64":
		d.d.i64 = make([]int64, n)
	case "u64":
		d.d.u64 = make([]uint64, n)
	case "i":
		d.d.i = make([]int, n)
	case "u":
		d.d.u = make([]uint, n)
	}
}

// transfer moves elements between the caller's buffer and the dataset at the given file
// positions; the memory side is always the first len(sel) elements of the buffer.
func (d *Dataset) transfer(data interface{}, sel []int, write bool) error {
	switch p := data.(type) {
	case *[]float64:
		d.alloc("f64")
		for k, fi := range sel {
			if write {
				d.d.f64[fi] = (*p)[k]
			} else {
				(*p)[k] = d.d.f64[fi]
			}
		}
	case *[]float32:
		d.alloc("f32")
		for k, fi := range sel {
			if write {
				d.d.f32[fi] = (*p)[k]
			} else {
				(*p)[k] = d.d.f32[fi]
			}
		}
	case *[]int32:
		d.alloc("i32")
		for k, fi := range sel {
			if write {
				d.d.i32[fi] = (*p)[k]
			} else {
				(*p)[k] = d.d.i32[fi]
			}
		}
	case *[]uint32:
		d.alloc("u32")
		for k, fi := range sel {
			if write {
				d.d.u32[fi] = (*p)[k]
			} else {
				(*p)[k] = d.d.u32[fi]
			}
		}
	case *[]int64:
		d.alloc("i64")
		for k, fi := range sel {
			if write {
				d.d.i64[fi] = (*p)[k]
			} else {
				(*p)[k] = d.d.i64[fi]
			}
		}
	case *[]uint64:
		d.alloc("u64")
		for k, fi := range sel {
			if write {
				d.d.u64[fi] = (*p)[k]
			} else {
				(*p)[k] = d.d.u64[fi]
			}
		}
	case *[]int:
		d.alloc("i")
		for k, fi := range sel {
			if write {
				d.d.i[fi] = (*p)[k]
			} else {
				(*p)[k] = d.d.i[fi]
			}
		}
	case *[]uint:
		d.alloc("u")
		for k, fi := range sel {
			if write {
				d.d.u[fi] = (*p)[k]
			} else {
				(*p)[k] = d.d.u[fi]
			}
		}
	case *[]byte:
		if !write && d.d.kind == "text" {
			copy(*p, d.d.text)
		}
	default:
		return errors.New("unsupported buffer type")
	}
	return nil
}

func bufLen(data interface{}) int {
	switch p := data.(type) {
	case *[]float64:
		return len(*p)
	case *[]float32:
		return len(*p)
	case *[]int32:
		return len(*p)
	case *[]uint32:
		return len(*p)
	case *[]int64:
		return len(*p)
	case *[]uint64:
		return len(*p)
	case *[]int:
		return len(*p)
	case *[]uint:
		return len(*p)
	}
	return -1
}

func (d *Dataset) Read(data interface{}) error {
	if fail("Read") {
		return errors.New("read failed")
	}
	sel := d.Space().selection()
	if n := bufLen(data); n >= 0 && n < len(sel) {
		panic("hdf5 model: read buffer smaller than the dataset")
	}
	return d.transfer(data, sel, false)
}

func (d *Dataset) Write(data interface{}) error {
	if fail("Write") {
		return errors.New("write failed")
	}
	Calls = append(Calls, "Write")
	sel := d.Space().selection()
	if n := bufLen(data); n >= 0 && n < len(sel) {
		panic("hdf5 model: write buffer smaller than the dataset")
	}
	return d.transfer(data, sel, true)
}

func (d *Dataset) ReadSubset(data interface{}, memspace, filespace *Dataspace) error {
	if fail("ReadSubset") {
		return errors.New("read failed")
	}
	sel := filespace.selection()
	if memspace != nil && size(memspace.dims) != len(sel) {
		return errors.New("memory and file selections differ in size")
	}
	if n := bufLen(data); n >= 0 && n < len(sel) {
		panic("hdf5 model: read buffer smaller than the selection")
	}
	return d.transfer(data, sel, false)
}

func (d *Dataset) WriteSubset(data interface{}, memspace, filespace *Dataspace) error {
	if fail("WriteSubset") {
		return errors.New("write failed")
	}
	Calls = append(Calls, "WriteSubset")
	sel := filespace.selection()
	if memspace != nil && size(memspace.dims) != len(sel) {
		return errors.New("memory and file selections differ in size")
	}
	if n := bufLen(data); n >= 0 && n < len(sel) {
		panic("hdf5 model: write buffer smaller than the selection")
	}
	return d.transfer(data, sel, true)
}
