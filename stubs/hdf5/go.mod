module gonum.org/v1/hdf5

go 1.12
