#!/bin/bash
# builds the gosmt engine offline from /verif/engine (x/tools v0.29.0 from the module cache)
set -e
cd "$(dirname "$0")/engine"
export GOFLAGS=-mod=mod GOPROXY=off GOSUMDB=off GOTOOLCHAIN=local
mkdir -p ../bin
go build -o ../bin/gosmt .
echo "gosmt built"
