#!/bin/bash
# usage: seedcheck.sh <PROP> <seed-id> <worktree> <demo-test-relpath> <go test pkg> <test run regex> [extra go test flags]
# Confirms a seeded change (tests pass, demo fails with / passes without), stores it under
# /verif/seeded/<seed-id>/, then runs the property's quick check against /repo with the change applied.
set -u
PROP=$1; ID=$2; WT=$3; DEMO=$4; PKG=$5; RUN=$6; shift 6; EXTRA="$*"
export GOFLAGS=-mod=mod GOPROXY=off GOSUMDB=off GOTOOLCHAIN=local
OUT=/verif/seeded/$ID; mkdir -p $OUT
cd $WT || exit 1
SRC=$(git diff --name-only | tr '\n' ' ')
git diff -- $SRC > $OUT/patch.diff
cp $DEMO $OUT/$(basename $DEMO).txt
{
echo "== existing suite with the change"; go test -vet=off -count=1 -skip 'Demo|Vectorised|Muskingum' ./data/... ./util/... ./io/json/... 2>&1 | grep -E "^(ok|FAIL|---)" 
echo "== demo WITH change (must fail)"; go test -vet=off -count=1 $EXTRA -run "$RUN" $PKG 2>&1 | tail -5
git diff -- $SRC > /tmp/seedcheck.$$.patch; git apply -R /tmp/seedcheck.$$.patch
echo "== demo WITHOUT change (must pass)"; go test -vet=off -count=1 $EXTRA -run "$RUN" $PKG 2>&1 | tail -3
git apply /tmp/seedcheck.$$.patch; rm -f /tmp/seedcheck.$$.patch
} > $OUT/confirm.log 2>&1
cat $OUT/confirm.log
cd /verif
if [ "${SEEDCHECK_IN_WORKTREE:-0}" = 1 ]; then
  # /repo is busy (e.g. seedrun.sh): check the worktree itself, which has the change applied;
  # seedrun.sh re-runs every stored seed against /repo later
  ./vcheck $PROP quick --repo $WT --no-evidence > $OUT/check.log 2>&1; RC=$?
else
  git -C /repo apply $OUT/patch.diff || { echo "patch does not apply to /repo"; exit 1; }
  ./vcheck $PROP quick --no-evidence > $OUT/check.log 2>&1; RC=$?
  git -C /repo checkout -- .
fi
echo "== check exit code $RC"; grep -E "^(VIOLATION|SUMMARY|INCONCLUSIVE)" $OUT/check.log | cut -c1-220 | head -12
echo $RC > $OUT/check.rc
