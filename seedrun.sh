#!/bin/bash
# usage: seedrun.sh [seed-id ...]   (default: all)  re-runs the owning property's quick check against each stored seeded change
cd /verif
ids="$@"; [ -z "$ids" ] && ids=$(cd seeded && ls -d */ | tr -d /)
for id in $ids; do
  prop=$(python3 -c "import json;print(json.load(open('seeded/$id/meta.json'))['property'])")
  git -C /repo apply /verif/seeded/$id/patch.diff || { echo "$id: patch does not apply"; continue; }
  ./vcheck $prop quick --no-evidence > seeded/$id/check.log 2>&1; rc=$?
  git -C /repo checkout -- .
  echo "$id: exit=$rc $(grep -c '^VIOLATION' seeded/$id/check.log) violation line(s); $(grep '^SUMMARY' seeded/$id/check.log | cut -c1-160)"
  echo $rc > seeded/$id/check.rc
done
