package sim

import (
	"bytes"
	"encoding/json"

	"github.com/flowmatters/openwater-core/data"
	"github.com/flowmatters/openwater-core/zzverif/vsym"
)

// zzLinear: a small model registered by the harness (package sim cannot import the model
// packages; the runner treats every model through the TimeSteppingModel interface only).
type zzLinear struct{ params data.ND2Float64 }

func (m *zzLinear) Description() ModelDescription {
	var d ModelDescription
	d.Parameters = []ParameterDescription{
		DescribeParameter("gain", 3, "", []float64{0, 10}, "", []string{}),
		DescribeParameter("offset", 5, "", []float64{0, 10}, "", []string{}),
	}
	d.Inputs = []string{"a", "b"}
	d.States = []string{"acc"}
	d.Outputs = []string{"y", "z"}
	return d
}
func (m *zzLinear) InitialiseDimensions(dims []int)             {}
func (m *zzLinear) FindDimensions(params data.ND2Float64) []int { return []int{} }
func (m *zzLinear) ApplyParameters(params data.ND2Float64)      { m.params = params }
func (m *zzLinear) InitialiseStates(n int) data.ND2Float64      { return data.NewArray2DFloat64(n, 1) }
func (m *zzLinear) Run(inputs data.ND3Float64, states data.ND2Float64, outputs data.ND3Float64) {
	T := inputs.Len3()
	for c := 0; c < states.Len(0); c++ {
		g, o := m.params.Get2(0, c%m.params.Len(1)), m.params.Get2(1, c%m.params.Len(1))
		acc := states.Get2(c, 0)
		for t := 0; t < T; t++ {
			a, b := inputs.Get3(c%inputs.Len(0), 0, t), inputs.Get3(c%inputs.Len(0), 1, t)
			outputs.Set3(c, 0, t, g*a+o)
			outputs.Set3(c, 1, t, b)
			acc += a
		}
		states.Set2(c, 0, acc)
	}
}

func c17register() {
	Catalog["ZZLinear"] = func() TimeSteppingModel { return &zzLinear{} }
}

// c17call runs the real RunSingleModelJSON.  Under the engine the JSON codec is an environment
// stub that hands over the request struct and captures the response struct; natively the request
// is marshalled and the response parsed with the real codec.
func c17call(req *singleModel, malformed bool, split bool) (resp singleModelResults, docs int) {
	if vsym.IsSymbolic() {
		if malformed {
			vsym.Stash("json-request", nil)
		} else {
			vsym.Stash("json-request", req)
		}
		RunSingleModelJSON(nil, nil, split)
		vsym.Fetch("json-response", &resp)
		return resp, vsym.StashCount("json-response")
	}
	var in []byte
	if malformed {
		in = []byte("{\"Name\": ")
	} else {
		in, _ = json.Marshal(req)
	}
	var out bytes.Buffer
	RunSingleModelJSON(bytes.NewReader(in), &out, split)
	dec := json.NewDecoder(&out)
	for {
		var r singleModelResults
		if err := dec.Decode(&r); err != nil {
			break
		}
		resp = r
		docs++
	}
	return resp, docs
}

func c17num(v interface{}) (float64, bool) {
	f, ok := v.(float64)
	return f, ok
}

// H_C17_valid_request: request for the registered model with any subset of its parameters and
// inputs present (presence flags symbolic), series of length 1 or 2, all numbers symbolic:
// exactly one response document, no crash, outputs and states equal a direct one-cell run with
// named-or-default parameters and zero for missing inputs; one log entry per default and per
// missing input.
//vsym:prop=C17 tier=quick ints=int floats=real maxruns=400
func H_C17_valid_request() {
	c17register()
	n := vsym.Int("len")
	vsym.Assume(n >= 1 && n <= 2)
	n = vsym.Concrete(n)
	hasGain, hasOffset, hasA, hasB := vsym.Bool("hasGain"), vsym.Bool("hasOffset"), vsym.Bool("hasA"), vsym.Bool("hasB")
	vsym.Assume(hasA || hasB) // the all-inputs-missing request has its own harness
	gain, offset := vsym.Float64("gain"), vsym.Float64("offset")
	a, b := make([]float64, n), make([]float64, n)
	for t := 0; t < n; t++ {
		a[t], b[t] = vsym.Float64("a"), vsym.Float64("b")
	}
	req := singleModel{Name: "ZZLinear"}
	missing := 0
	// unknown extra entries and reversed order must not matter
	req.Parameters = append(req.Parameters, modelValue{"unrelated", 42})
	if hasOffset {
		req.Parameters = append(req.Parameters, modelValue{"offset", offset})
	} else {
		missing++
	}
	if hasGain {
		req.Parameters = append(req.Parameters, modelValue{"gain", gain})
	} else {
		missing++
	}
	// a series the model does not use, listed first and of a different length
	req.Inputs = append(req.Inputs, modelInput{"unrelated", []float64{7, 8, 9, 10}})
	if hasB {
		req.Inputs = append(req.Inputs, modelInput{"b", b})
	} else {
		missing++
	}
	if hasA {
		req.Inputs = append(req.Inputs, modelInput{"a", a})
	} else {
		missing++
	}
	resp, docs := c17call(&req, false, false)
	vsym.Reach("responded")
	vsym.Assert(docs == 1, "exactly-one-response-document")
	// expected: direct run
	g, o := 3.0, 5.0
	if hasGain {
		g = gain
	}
	if hasOffset {
		o = offset
	}
	outs, okO := resp.RunResults.Outputs.([]interface{})
	vsym.Assert(okO && len(outs) == 2, "outputs-nested-like-dimensions")
	if okO && len(outs) == 2 {
		ys, ok1 := outs[0].([]interface{})
		zs, ok2 := outs[1].([]interface{})
		vsym.Assert(ok1 && ok2 && len(ys) == n && len(zs) == n, "outputs-nested-like-dimensions")
		if ok1 && ok2 && len(ys) == n && len(zs) == n {
			for t := 0; t < n; t++ {
				av, bv := 0.0, 0.0
				if hasA {
					av = a[t]
				}
				if hasB {
					bv = b[t]
				}
				y, oky := c17num(ys[t])
				z, okz := c17num(zs[t])
				vsym.Assert(oky && okz, "finite-numbers-encoded-as-numbers")
				vsym.AssertNear(y, g*av+o, 1e-9, 1e-9, "outputs-equal-direct-run")
				vsym.AssertNear(z, bv, 1e-9, 1e-9, "outputs-equal-direct-run")
			}
		}
	}
	sts, okS := resp.RunResults.States.([]interface{})
	vsym.Assert(okS && len(sts) == 1, "states-nested-like-dimensions")
	if okS && len(sts) == 1 {
		acc := 0.0
		if hasA {
			for t := 0; t < n; t++ {
				acc += a[t]
			}
		}
		s, oks := c17num(sts[0])
		vsym.Assert(oks, "finite-numbers-encoded-as-numbers")
		vsym.AssertNear(s, acc, 1e-9, 1e-9, "states-equal-direct-run")
	}
	// one (initially empty) log line plus one per default parameter and per missing input
	vsym.Assert(len(resp.Log) == 1+missing, "one-log-entry-per-default-and-missing-input")
}

// H_C17_problem_requests: malformed JSON, unknown model, empty model name: exactly one response
// document carrying a log entry, no outputs, no crash.
//vsym:prop=C17 tier=quick ints=int floats=real
func H_C17_problem_requests() {
	c17register()
	kind := vsym.Int("kind")
	vsym.Assume(kind >= 0 && kind <= 2)
	kind = vsym.Concrete(kind)
	req := singleModel{Name: "NoSuchModel"}
	if kind == 1 {
		req.Name = ""
	}
	resp, docs := c17call(&req, kind == 2, true)
	vsym.Reach("responded")
	vsym.Assert(docs == 1, "exactly-one-response-document")
	vsym.Assert(len(resp.Log) >= 1, "problem-described-in-log")
	vsym.Assert(resp.RunResults.Outputs == nil && resp.RunResults.States == nil, "no-results-for-problem-request")
}

// H_C17_no_inputs: a request that supplies none of the model's inputs.
//vsym:prop=C17 tier=quick ints=int floats=real
func H_C17_no_inputs() {
	c17register()
	req := singleModel{Name: "ZZLinear"}
	req.Parameters = append(req.Parameters, modelValue{"gain", vsym.Float64("gain")})
	// no usable input: none listed / only names the model does not know / a known name without values
	kind := vsym.Int("kind")
	vsym.Assume(kind >= 0 && kind <= 3)
	kind = vsym.Concrete(kind)
	switch kind {
	case 1:
		req.Inputs = append(req.Inputs, modelInput{"Rain", []float64{vsym.Float64("v"), 2}})
	case 2:
		req.Inputs = append(req.Inputs, modelInput{"a", nil})
	case 3:
		req.Inputs = append(req.Inputs, modelInput{"unrelated", []float64{1}}, modelInput{"alsoUnknown", []float64{1, 2, 3}})
	}
	resp, docs := c17call(&req, false, false)
	vsym.Reach("responded")
	vsym.Assert(docs == 1, "exactly-one-response-document")
	vsym.Assert(len(resp.Log) >= 1, "problem-described-in-log")
}

// H_C17_unequal_lengths: two inputs of different lengths (1 and 2, either order).
//vsym:prop=C17 tier=quick ints=int floats=real
func H_C17_unequal_lengths() {
	c17register()
	longFirst := vsym.Bool("longFirst")
	x := []float64{vsym.Float64("x0"), vsym.Float64("x1")}
	y := []float64{vsym.Float64("y0")}
	req := singleModel{Name: "ZZLinear"}
	if longFirst {
		req.Inputs = append(req.Inputs, modelInput{"a", x}, modelInput{"b", y})
	} else {
		req.Inputs = append(req.Inputs, modelInput{"a", y}, modelInput{"b", x})
	}
	resp, docs := c17call(&req, false, false)
	vsym.Reach("responded")
	vsym.Assert(docs == 1, "exactly-one-response-document")
	vsym.Assert(len(resp.Log) >= 1, "problem-described-in-log")
}

// H_C17_nonfinite_results: IEEE-754 model: a request with finite inputs whose accumulated state
// overflows (or not): in both output modes (nested lists / maps by name) every non-finite result
// is encoded as the string NaN, +Inf or -Inf, finite ones as numbers, and exactly one document
// is produced.
//vsym:prop=C17 tier=quick ints=int floats=fp timeout=120
func H_C17_nonfinite_results_split() { c17nonfinite(true) }

// H_C17_nonfinite_results_nested: same in the nested-list output mode.
//vsym:prop=C17 tier=quick ints=int floats=fp timeout=120
func H_C17_nonfinite_results_nested() { c17nonfinite(false) }

func c17nonfinite(split bool) {
	c17register()
	a0, a1 := vsym.Float64("a0"), vsym.Float64("a1")
	vsym.Assume(a0 == a0 && a1 == a1 && a0-a0 == 0 && a1-a1 == 0) // finite request values
	req := singleModel{Name: "ZZLinear"}
	req.Parameters = append(req.Parameters, modelValue{"gain", 1}, modelValue{"offset", 0})
	req.Inputs = append(req.Inputs, modelInput{"a", []float64{a0, a1}}, modelInput{"b", []float64{0, 0}})
	resp, docs := c17call(&req, false, split)
	vsym.Reach("responded")
	vsym.Assert(docs == 1, "exactly-one-response-document")
	acc := 0.0 // accumulated exactly as the model does
	acc += a0
	acc += a1
	var got interface{}
	if split {
		m, ok := resp.RunResults.States.(map[string]interface{})
		vsym.Assert(ok, "split-states-are-a-map")
		if ok {
			got = m["acc"]
		}
	} else {
		l, ok := resp.RunResults.States.([]interface{})
		vsym.Assert(ok && len(l) == 1, "states-nested-like-dimensions")
		if ok && len(l) == 1 {
			got = l[0]
		}
	}
	s, isStr := got.(string)
	f, isNum := got.(float64)
	if acc-acc == 0 {
		vsym.Assert(isNum && f == acc, "finite-state-encoded-as-number")
	} else if acc > 0 {
		vsym.Assert(isStr && s == "+Inf", "overflowed-state-encoded-as-string")
	} else {
		vsym.Assert(isStr && s == "-Inf", "overflowed-state-encoded-as-string")
	}
}
