package main

import (
	"github.com/flowmatters/openwater-core/data"
	"github.com/flowmatters/openwater-core/io"
	"github.com/flowmatters/openwater-core/zzverif/vsym"
	"gonum.org/v1/hdf5"
)

func c07write2(fn, ds string, a data.ND2Float64) {
	vsym.Assume((io.H5RefFloat64{Filename: fn, Dataset: ds}).Write(a) == nil)
}
func c07write3(fn, ds string, a data.ND3Float64) {
	vsym.Assume((io.H5RefFloat64{Filename: fn, Dataset: ds}).Write(a) == nil)
}
func c07sym2(tag string, n, m int) data.ND2Float64 {
	a := data.NewArray2DFloat64(n, m)
	for i := 0; i < n; i++ {
		for j := 0; j < m; j++ {
			a.Set2(i, j, vsym.Float64(tag))
		}
	}
	return a
}
func c07sym3(tag string, n, m, k int) data.ND3Float64 {
	a := data.NewArray3DFloat64(n, m, k)
	for i := 0; i < n; i++ {
		for j := 0; j < m; j++ {
			for t := 0; t < k; t++ {
				a.Set3(i, j, t, vsym.Float64(tag))
			}
		}
	}
	return a
}
func c07batches(fn, model string, b []int32) {
	a := data.NewArrayInt32([]int{len(b)})
	for i, v := range b {
		a.Set([]int{i}, v)
	}
	vsym.Assume((io.H5RefInt32{Filename: fn, Dataset: "/MODELS/" + model + "/batches"}).Write(a) == nil)
}

// c07graph: a three-generation model graph in the HDF5 model (see H_C07_run_simulation)
type c07graph struct {
	fn, out        string
	T              int
	sp, ss, mp, ms data.ND2Float64
	si, mi         data.ND3Float64
}

// extra: a second Muskingum node in generation 0 (no links), so that generation 0 runs two model
// types concurrently; the linked Muskingum node is then node 1 of its model (row 1), first of its batch.
func c07makeGraph(extra bool) c07graph {
	hdf5.Reset()
	vsym.Summarise("NoKernelImplicit")
	fn, out := "model.h5", "out.h5"
	T := 1
	hdf5.PutText(fn, "/META/models", []string{"Simhyd", "Muskingum"}, 16)
	hdf5.MakeGroup(fn, "/DIMENSIONS")
	c07batches(fn, "Simhyd", []int32{1, 2, 2})
	nm, dst := 1, uint32(0)
	if extra {
		nm, dst = 2, 1
		c07batches(fn, "Muskingum", []int32{1, 1, 2})
	} else {
		c07batches(fn, "Muskingum", []int32{0, 0, 1})
	}
	sp, ss, si := c07sym2("sp", 9, 2), c07sym2("ss", 2, 3), c07sym3("si", 2, 2, T)
	for c := 0; c < 2; c++ {
		vsym.Assume(sp.Get2(8, c) > 0)
	}
	mp, ms, mi := c07sym2("mp", 3, nm), c07sym2("ms", nm, 3), c07sym3("mi", nm, 2, T)
	for c := 0; c < nm; c++ {
		vsym.Assume(2*mp.Get2(0, c)*(1-mp.Get2(1, c))+mp.Get2(2, c) > 0)
	}
	c07write2(fn, "/MODELS/Simhyd/parameters", sp)
	c07write2(fn, "/MODELS/Simhyd/states", ss)
	c07write3(fn, "/MODELS/Simhyd/inputs", si)
	c07write2(fn, "/MODELS/Muskingum/parameters", mp)
	c07write2(fn, "/MODELS/Muskingum/states", ms)
	c07write3(fn, "/MODELS/Muskingum/inputs", mi)
	// links: (srcGen, srcModel, srcNode, srcGenNode, srcVar, dstGen, dstModel, dstNode, dstGenNode, dstVar)
	rows := [][]uint32{
		{0, 0, 0, 0, 0, 2, 1, dst, 0, 0}, // Simhyd node 0 (generation 0) runoff   -> Muskingum inflow
		{1, 0, 1, 0, 0, 2, 1, dst, 0, 0}, // Simhyd node 1 (generation 1, first of its batch) runoff -> Muskingum inflow
		{1, 0, 1, 0, 2, 2, 1, dst, 0, 1}, // Simhyd node 1 baseflow -> Muskingum lateral
	}
	links := data.NewArrayUint32([]int{len(rows), 10})
	for i, r := range rows {
		for j, v := range r {
			links.Set([]int{i, j}, v)
		}
	}
	vsym.Assume((io.H5RefUint32{Filename: fn, Dataset: "/LINKS"}).Write(links) == nil)

	return c07graph{fn, out, T, sp, ss, mp, ms, si, mi}
}
