package main

import (
	"github.com/flowmatters/openwater-core/zzverif/vsym"
)

// H_C05_owsim_generations: the real run_simulation on the three-generation graph of
// H_C07_run_simulation (a Simhyd node in generations 0 and 1, a Muskingum node in generation 2,
// links between them, plus an unlinked Muskingum node in generation 0 so that two model types run concurrently in one generation; all data symbolic) with every memory access logged per goroutine
// instance: the main loop (link processing, lazy generation loading), one goroutine per model
// type and generation (runGeneration), the goroutine per cell inside each model's Run, and one
// asynchronous writer goroutine per generation.  Obligation: any two conflicting accesses (same
// cell, one a write) by different goroutine instances are ordered by go / channel
// send->receive edges or made under a common lock held exclusively by one of them.  Lock
// acquisition ORDER is not used as an ordering (it is schedule-dependent), so the verdict holds
// for every interleaving with the same send/receive pairing, not only the executed one.
//vsym:prop=C05 tier=quick ints=int floats=real timeout=60 maxruns=200
func H_C05_owsim_generations() {
	vsym.Summarise("NoKernelImplicit")
	g := c07makeGraph(true)
	vsym.LogStart()
	run_simulation([]string{g.fn, g.out})
	vsym.LogStop()
	vsym.Reach("simulated")
	vsym.Assert(vsym.Goroutines() == 11, "one-goroutine-per-model-run-cell-and-writer")
	vsym.AssertNoRacesHB("fact:conflicting-accesses-ordered-by-go-or-channel-edges-or-a-common-lock")
}
