package main

import (
	"github.com/flowmatters/openwater-core/data"
	"github.com/flowmatters/openwater-core/io"
	"github.com/flowmatters/openwater-core/sim"
	"github.com/flowmatters/openwater-core/zzverif/vsym"
	"gonum.org/v1/hdf5"
)

// H_C07_run_simulation: the real run_simulation on a three-generation graph held in the HDF5
// model: generations 0 and 1 have one Simhyd node each (so node index and index within the generation differ), generation 2 one Muskingum node whose inflow input
// receives the runoff of BOTH Simhyd nodes (two links into one input) on top of its stored
// inflow, and whose lateral input receives the baseflow of node 1 (fan-out); one timestep; all
// parameters, states and inputs symbolic.  The output file must hold, at each node's row, the
// outputs and final states (and final inputs of the Muskingum node) of the sequential reference:
// generations in order, input = stored + sum of linked outputs, each node run once.
// The goroutines (per-model runs, asynchronous writer) are executed in ONE sequentialised
// schedule (writer of generation g runs as soon as it is spawned); for the other schedules the
// engine's happens-before analysis (vector clocks over go, send->receive, unlock->lock) shows that
// no two conflicting memory accesses of different goroutines are unordered, so every interleaving
// with the same synchronisation pairing computes the same memory contents.  Schedules in which
// a writer receives another generation's token first (the put-back-and-sleep path) are outside.
//vsym:prop=C07 tier=quick ints=int floats=real timeout=60 maxruns=200
func H_C07_run_simulation() { c07loop(false) }

// H_C07_run_simulation_two_models: the same with a second, unlinked Muskingum node in
// generation 0: two model types run in one generation, the Muskingum batch table is [1,1,2] (an
// empty middle batch), and the linked node is row 1 of its model but index 0 of its generation.
//vsym:prop=C07 tier=quick ints=int floats=real timeout=60 maxruns=200
func H_C07_run_simulation_two_models() { c07loop(true) }

func c07loop(extra bool) {
	g := c07makeGraph(extra)
	fn, out, T, sp, ss, si, mp, ms, mi := g.fn, g.out, g.T, g.sp, g.ss, g.si, g.mp, g.ms, g.mi
	_ = fn
	vsym.LogStart()
	run_simulation([]string{fn, out})
	vsym.LogStop()
	vsym.Reach("simulated")
	// every generation written exactly once: one block write per written dataset and non-empty
	// generation (Simhyd: outputs + states in generations 0 and 1; Muskingum: outputs + states
	// (+ inputs in the one-model graph) per non-empty generation)
	blockWrites := 0
	for _, c := range hdf5.Calls {
		if c == "WriteSubset" {
			blockWrites++
		}
	}
	wantWrites := 7
	if extra {
		wantWrites = 8
	}
	vsym.Assert(blockWrites == wantWrites, "every-generation-written-exactly-once")
	// every scheduling with the same send/receive and lock pairing: conflicting accesses of the
	// main loop, the per-model run goroutines, the per-cell goroutines inside Run and the writer
	// goroutines are ordered by go / channel / lock edges
	vsym.AssertNoRacesHB("fact:conflicting-accesses-ordered-by-go-or-channel-edges-or-a-common-lock")

	// sequential reference
	sh := sim.Catalog["Simhyd"]()
	sh.ApplyParameters(sp)
	rss := data.NewArray2DFloat64(2, 3)
	rss.CopyFrom(ss)
	rso := sim.InitialiseOutputs(sh, T, 2)
	sh.Run(si, rss, rso)
	nm, ln := 1, 0
	if extra {
		nm, ln = 2, 1
	}
	mk := sim.Catalog["Muskingum"]()
	mk.ApplyParameters(mp)
	rmi := data.NewArray3DFloat64(nm, 2, T)
	rmi.CopyFrom(mi)
	rmi.Set3(ln, 0, 0, mi.Get3(ln, 0, 0)+rso.Get3(0, 0, 0)+rso.Get3(1, 0, 0))
	rmi.Set3(ln, 1, 0, mi.Get3(ln, 1, 0)+rso.Get3(1, 2, 0))
	rms := data.NewArray2DFloat64(nm, 3)
	rms.CopyFrom(ms)
	rmo := sim.InitialiseOutputs(mk, T, nm)
	mk.Run(rmi, rms, rmo)

	so, e1 := (io.H5RefFloat64{Filename: out, Dataset: "/MODELS/Simhyd/outputs"}).Load()
	sst, e2 := (io.H5RefFloat64{Filename: out, Dataset: "/MODELS/Simhyd/states"}).Load()
	mo, e3 := (io.H5RefFloat64{Filename: out, Dataset: "/MODELS/Muskingum/outputs"}).Load()
	mst, e4 := (io.H5RefFloat64{Filename: out, Dataset: "/MODELS/Muskingum/states"}).Load()
	min, e5 := (io.H5RefFloat64{Filename: out, Dataset: "/MODELS/Muskingum/inputs"}).Load()
	vsym.Assert(e1 == nil, "every-generation-written-before-return:simhyd-outputs")
	vsym.Assert(e2 == nil, "every-generation-written-before-return:simhyd-states")
	vsym.Assert(e3 == nil, "every-generation-written-before-return:muskingum-outputs")
	vsym.Assert(e4 == nil, "every-generation-written-before-return:muskingum-states")
	// final inputs are written by default only for models without nodes in generation 0
	// (writeInputs(modelName, Batches[0] == 0)): present in the one-model graph, absent here
	if extra {
		vsym.Assert(e5 != nil, "inputs-not-written-for-a-model-with-nodes-in-generation-0")
	} else {
		vsym.Assert(e5 == nil, "every-generation-written-before-return:muskingum-inputs")
	}
	if e1 != nil || e2 != nil || e3 != nil || e4 != nil || (e5 != nil) != extra {
		return
	}
	for c := 0; c < 2; c++ {
		for o := 0; o < 4; o++ {
			vsym.AssertNear(so.Get([]int{c, o, 0}), rso.Get3(c, o, 0), 1e-9, 1e-9, "simhyd-outputs-at-node-rows-equal-reference")
		}
		for s := 0; s < 3; s++ {
			vsym.AssertNear(sst.Get([]int{c, s}), rss.Get2(c, s), 1e-9, 1e-9, "simhyd-states-at-node-rows-equal-reference")
		}
	}
	for c := 0; c < nm; c++ {
		if !extra {
			vsym.AssertNear(min.Get([]int{c, 0, 0}), rmi.Get3(c, 0, 0), 1e-9, 1e-9, "linked-input-is-stored-plus-sum-of-linked-outputs")
			vsym.AssertNear(min.Get([]int{c, 1, 0}), rmi.Get3(c, 1, 0), 1e-9, 1e-9, "linked-input-is-stored-plus-sum-of-linked-outputs")
		}
		vsym.AssertNear(mo.Get([]int{c, 0, 0}), rmo.Get3(c, 0, 0), 1e-9, 1e-9, "muskingum-outputs-equal-reference")
		for s := 0; s < 3; s++ {
			vsym.AssertNear(mst.Get([]int{c, s}), rms.Get2(c, s), 1e-9, 1e-9, "muskingum-states-equal-reference")
		}
	}
}

// H_C07_output_selection: command-line output selections on the same three-generation graph:
// -no-outputs-for Simhyd (no Simhyd outputs dataset, its states still written, Muskingum
// unaffected), -inputs-for Simhyd (its final inputs are written although it has nodes in
// generation 0), -no-inputs-for Muskingum (its final inputs are not written).
//vsym:prop=C07 tier=quick ints=int floats=real timeout=60 maxruns=200
func H_C07_output_selection() {
	g := c07makeGraph(false)
	*noOutputsFor, *inputsFor, *noInputsFor = "Simhyd", "Simhyd", "Muskingum"
	run_simulation([]string{g.fn, g.out})
	*noOutputsFor, *inputsFor, *noInputsFor = "", "", ""
	vsym.Reach("simulated")
	_, e1 := (io.H5RefFloat64{Filename: g.out, Dataset: "/MODELS/Simhyd/outputs"}).Load()
	sst, e2 := (io.H5RefFloat64{Filename: g.out, Dataset: "/MODELS/Simhyd/states"}).Load()
	sin, e3 := (io.H5RefFloat64{Filename: g.out, Dataset: "/MODELS/Simhyd/inputs"}).Load()
	_, e4 := (io.H5RefFloat64{Filename: g.out, Dataset: "/MODELS/Muskingum/outputs"}).Load()
	_, e5 := (io.H5RefFloat64{Filename: g.out, Dataset: "/MODELS/Muskingum/inputs"}).Load()
	vsym.Assert(e1 != nil, "excluded-outputs-not-written")
	vsym.Assert(e2 == nil, "states-written-regardless-of-output-selection")
	vsym.Assert(e3 == nil, "requested-final-inputs-written")
	vsym.Assert(e4 == nil, "other-model-outputs-unaffected")
	vsym.Assert(e5 != nil, "excluded-final-inputs-not-written")
	if e2 == nil && e3 == nil {
		vsym.Assert(sst.Len(0) == 2 && sin.Len(0) == 2, "datasets-sized-by-total-node-count")
		for c := 0; c < 2; c++ {
			for i := 0; i < 2; i++ {
				vsym.Assert(sin.Get([]int{c, i, 0}) == g.si.Get3(c, i, 0), "final-inputs-of-unlinked-nodes-are-the-stored-inputs")
			}
		}
	}
}
