package main

import (
	"github.com/flowmatters/openwater-core/data"
	"github.com/flowmatters/openwater-core/io"
	"github.com/flowmatters/openwater-core/sim"
	"github.com/flowmatters/openwater-core/zzverif/vsym"
	"gonum.org/v1/hdf5"
)

func c07write2(fn, ds string, a data.ND2Float64) {
	vsym.Assume((io.H5RefFloat64{Filename: fn, Dataset: ds}).Write(a) == nil)
}
func c07write3(fn, ds string, a data.ND3Float64) {
	vsym.Assume((io.H5RefFloat64{Filename: fn, Dataset: ds}).Write(a) == nil)
}
func c07sym2(tag string, n, m int) data.ND2Float64 {
	a := data.NewArray2DFloat64(n, m)
	for i := 0; i < n; i++ {
		for j := 0; j < m; j++ {
			a.Set2(i, j, vsym.Float64(tag))
		}
	}
	return a
}
func c07sym3(tag string, n, m, k int) data.ND3Float64 {
	a := data.NewArray3DFloat64(n, m, k)
	for i := 0; i < n; i++ {
		for j := 0; j < m; j++ {
			for t := 0; t < k; t++ {
				a.Set3(i, j, t, vsym.Float64(tag))
			}
		}
	}
	return a
}
func c07batches(fn, model string, b []int32) {
	a := data.NewArrayInt32([]int{len(b)})
	for i, v := range b {
		a.Set([]int{i}, v)
	}
	vsym.Assume((io.H5RefInt32{Filename: fn, Dataset: "/MODELS/" + model + "/batches"}).Write(a) == nil)
}

// H_C07_run_simulation: the real run_simulation on a three-generation graph held in the HDF5
// model: generations 0 and 1 have one Simhyd node each (so node index and index within the generation differ), generation 2 one Muskingum node whose inflow input
// receives the runoff of BOTH Simhyd nodes (two links into one input) on top of its stored
// inflow, and whose lateral input receives the baseflow of node 1 (fan-out); one timestep; all
// parameters, states and inputs symbolic.  The output file must hold, at each node's row, the
// outputs and final states (and final inputs of the Muskingum node) of the sequential reference:
// generations in order, input = stored + sum of linked outputs, each node run once.
// The goroutines (per-model runs, asynchronous writer) are executed in ONE sequentialised
// schedule (writer of generation g runs as soon as it is spawned); other schedules are outside
// this harness.
//vsym:prop=C07 tier=quick ints=int floats=real timeout=60 maxruns=200
func H_C07_run_simulation() {
	hdf5.Reset()
	vsym.Summarise("NoKernelImplicit")
	fn, out := "model.h5", "out.h5"
	T := 1
	hdf5.PutText(fn, "/META/models", []string{"Simhyd", "Muskingum"}, 16)
	hdf5.MakeGroup(fn, "/DIMENSIONS")
	c07batches(fn, "Simhyd", []int32{1, 2, 2})
	c07batches(fn, "Muskingum", []int32{0, 0, 1})
	sp, ss, si := c07sym2("sp", 9, 2), c07sym2("ss", 2, 3), c07sym3("si", 2, 2, T)
	for c := 0; c < 2; c++ {
		vsym.Assume(sp.Get2(8, c) > 0)
	}
	mp, ms, mi := c07sym2("mp", 3, 1), c07sym2("ms", 1, 3), c07sym3("mi", 1, 2, T)
	vsym.Assume(2*mp.Get2(0, 0)*(1-mp.Get2(1, 0))+mp.Get2(2, 0) > 0)
	c07write2(fn, "/MODELS/Simhyd/parameters", sp)
	c07write2(fn, "/MODELS/Simhyd/states", ss)
	c07write3(fn, "/MODELS/Simhyd/inputs", si)
	c07write2(fn, "/MODELS/Muskingum/parameters", mp)
	c07write2(fn, "/MODELS/Muskingum/states", ms)
	c07write3(fn, "/MODELS/Muskingum/inputs", mi)
	// links: (srcGen, srcModel, srcNode, srcGenNode, srcVar, dstGen, dstModel, dstNode, dstGenNode, dstVar)
	rows := [][]uint32{
		{0, 0, 0, 0, 0, 2, 1, 0, 0, 0}, // Simhyd node 0 (generation 0) runoff   -> Muskingum inflow
		{1, 0, 1, 0, 0, 2, 1, 0, 0, 0}, // Simhyd node 1 (generation 1, first of its batch) runoff -> Muskingum inflow
		{1, 0, 1, 0, 2, 2, 1, 0, 0, 1}, // Simhyd node 1 baseflow -> Muskingum lateral
	}
	links := data.NewArrayUint32([]int{len(rows), 10})
	for i, r := range rows {
		for j, v := range r {
			links.Set([]int{i, j}, v)
		}
	}
	vsym.Assume((io.H5RefUint32{Filename: fn, Dataset: "/LINKS"}).Write(links) == nil)

	run_simulation([]string{fn, out})
	vsym.Reach("simulated")

	// sequential reference
	sh := sim.Catalog["Simhyd"]()
	sh.ApplyParameters(sp)
	rss := data.NewArray2DFloat64(2, 3)
	rss.CopyFrom(ss)
	rso := sim.InitialiseOutputs(sh, T, 2)
	sh.Run(si, rss, rso)
	mk := sim.Catalog["Muskingum"]()
	mk.ApplyParameters(mp)
	rmi := data.NewArray3DFloat64(1, 2, T)
	rmi.Set3(0, 0, 0, mi.Get3(0, 0, 0)+rso.Get3(0, 0, 0)+rso.Get3(1, 0, 0))
	rmi.Set3(0, 1, 0, mi.Get3(0, 1, 0)+rso.Get3(1, 2, 0))
	rms := data.NewArray2DFloat64(1, 3)
	rms.CopyFrom(ms)
	rmo := sim.InitialiseOutputs(mk, T, 1)
	mk.Run(rmi, rms, rmo)

	so, e1 := (io.H5RefFloat64{Filename: out, Dataset: "/MODELS/Simhyd/outputs"}).Load()
	sst, e2 := (io.H5RefFloat64{Filename: out, Dataset: "/MODELS/Simhyd/states"}).Load()
	mo, e3 := (io.H5RefFloat64{Filename: out, Dataset: "/MODELS/Muskingum/outputs"}).Load()
	mst, e4 := (io.H5RefFloat64{Filename: out, Dataset: "/MODELS/Muskingum/states"}).Load()
	min, e5 := (io.H5RefFloat64{Filename: out, Dataset: "/MODELS/Muskingum/inputs"}).Load()
	vsym.Assert(e1 == nil && e2 == nil && e3 == nil && e4 == nil && e5 == nil, "every-generation-written-before-return")
	if e1 != nil || e2 != nil || e3 != nil || e4 != nil || e5 != nil {
		return
	}
	for c := 0; c < 2; c++ {
		for o := 0; o < 4; o++ {
			vsym.AssertNear(so.Get([]int{c, o, 0}), rso.Get3(c, o, 0), 1e-9, 1e-9, "simhyd-outputs-at-node-rows-equal-reference")
		}
		for s := 0; s < 3; s++ {
			vsym.AssertNear(sst.Get([]int{c, s}), rss.Get2(c, s), 1e-9, 1e-9, "simhyd-states-at-node-rows-equal-reference")
		}
	}
	vsym.AssertNear(min.Get([]int{0, 0, 0}), rmi.Get3(0, 0, 0), 1e-9, 1e-9, "linked-input-is-stored-plus-sum-of-linked-outputs")
	vsym.AssertNear(min.Get([]int{0, 1, 0}), rmi.Get3(0, 1, 0), 1e-9, 1e-9, "linked-input-is-stored-plus-sum-of-linked-outputs")
	vsym.AssertNear(mo.Get([]int{0, 0, 0}), rmo.Get3(0, 0, 0), 1e-9, 1e-9, "muskingum-outputs-equal-reference")
	for s := 0; s < 3; s++ {
		vsym.AssertNear(mst.Get([]int{0, s}), rms.Get2(0, s), 1e-9, 1e-9, "muskingum-states-equal-reference")
	}
}
