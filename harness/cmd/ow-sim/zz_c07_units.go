package main

import (
	"github.com/flowmatters/openwater-core/data"
	"github.com/flowmatters/openwater-core/io"
	"github.com/flowmatters/openwater-core/sim"
	"github.com/flowmatters/openwater-core/zzverif/vsym"
	"gonum.org/v1/hdf5"
)

const c07model = "Simhyd"

// c07batchTable: cumulative batch ends per generation (an entry equal to its predecessor is an
// empty batch)
func c07batchTable() []int32 {
	k := vsym.Int("batchTable")
	vsym.Assume(k >= 0 && k <= 6)
	switch vsym.Concrete(k) {
	case 0:
		return []int32{1, 3}
	case 1:
		return []int32{0, 2}
	case 2:
		return []int32{2, 2}
	case 3:
		return []int32{1, 1, 2}
	case 5:
		return []int32{1, 2, 3}
	case 6:
		return []int32{1, 3, 4}
	}
	return []int32{2, 3, 3}
}

// c07file writes a model file with N = last batch end nodes of one model type into the HDF5
// model and returns the arrays written (symbolic contents)
func c07file(fn string, batches []int32, T int, withInputs bool) (params data.ND2Float64, states data.ND2Float64, inputs data.ND3Float64) {
	N := int(batches[len(batches)-1])
	desc := sim.Catalog[c07model]().Description()
	nP, nS, nI := len(desc.Parameters), len(desc.States), len(desc.Inputs)
	b := data.NewArrayInt32([]int{len(batches)})
	for i, v := range batches {
		b.Set([]int{i}, v)
	}
	vsym.Assume((io.H5RefInt32{Filename: fn, Dataset: "/MODELS/" + c07model + "/batches"}).Write(b) == nil)
	params = data.NewArray2DFloat64(nP, N)
	for p := 0; p < nP; p++ {
		for c := 0; c < N; c++ {
			params.Set2(p, c, vsym.Float64("param"))
		}
	}
	// a strictly positive soil store capacity keeps the kernel away from 0/0
	for c := 0; c < N; c++ {
		vsym.Assume(params.Get2(8, c) > 0)
	}
	states = data.NewArray2DFloat64(N, nS)
	for c := 0; c < N; c++ {
		for s := 0; s < nS; s++ {
			states.Set2(c, s, vsym.Float64("state"))
		}
	}
	inputs = data.NewArray3DFloat64(N, nI, T)
	for c := 0; c < N; c++ {
		for i := 0; i < nI; i++ {
			for t := 0; t < T; t++ {
				inputs.Set3(c, i, t, vsym.Float64("input"))
			}
		}
	}
	vsym.Assume((io.H5RefFloat64{Filename: fn, Dataset: "/MODELS/" + c07model + "/parameters"}).Write(params) == nil)
	vsym.Assume((io.H5RefFloat64{Filename: fn, Dataset: "/MODELS/" + c07model + "/states"}).Write(states) == nil)
	if withInputs {
		vsym.Assume((io.H5RefFloat64{Filename: fn, Dataset: "/MODELS/" + c07model + "/inputs"}).Write(inputs) == nil)
	}
	return
}

// H_C07_get_generation: for every generation g of a model type, GetGeneration loads exactly the
// node rows [batches[g-1], batches[g]) of the parameters (columns), initial states and stored
// inputs, with Count equal to the difference; an empty batch loads nothing; a model without
// stored inputs gets zero inputs of the simulation length.  Batch tables enumerated
// ([1,3] [0,2] [2,2] [1,1,2] [2,3,3] [1,2,3] [1,3,4]); all data symbolic; HDF5 replaced by the in-memory model.
//vsym:prop=C07 tier=quick ints=int floats=real maxruns=400
func H_C07_get_generation() {
	hdf5.Reset()
	fn := "model.h5"
	batches := c07batchTable()
	T := 2
	wi := vsym.Int("storedInputs")
	vsym.Assume(wi >= 0 && wi <= 1)
	withInputs := vsym.Concrete(wi) == 1
	params, states, inputs := c07file(fn, batches, T, withInputs)
	mr, err := initModel(fn, c07model, fn)
	vsym.Reach("initialised")
	vsym.Assert(err == nil && mr != nil, "model-reference-initialised")
	if err != nil || mr == nil {
		return
	}
	mr.SimLength = T
	vsym.Assert(len(mr.Batches) == len(batches), "batches-loaded")
	nP, nS, nI := params.Len(0), states.Len(1), inputs.Len(1)
	for g := 0; g < len(batches); g++ {
		lo := 0
		if g > 0 {
			lo = int(batches[g-1])
		}
		cnt := int(batches[g]) - lo
		gen, gerr := mr.GetGeneration(g)
		vsym.Assert(gerr == nil && gen != nil, "generation-loaded")
		if gerr != nil || gen == nil {
			return
		}
		vsym.Assert(gen.Count == cnt, "generation-count-is-batch-difference")
		if cnt == 0 {
			continue
		}
		vsym.Assert(gen.Parameters.Len(0) == nP && gen.Parameters.Len(1) == cnt, "generation-parameter-shape")
		vsym.Assert(gen.States.Len(0) == cnt && gen.States.Len(1) == nS, "generation-state-shape")
		vsym.Assert(gen.Inputs.Len(0) == cnt && gen.Inputs.Len(1) == nI && gen.Inputs.Len(2) == T, "generation-input-shape")
		for c := 0; c < cnt; c++ {
			for p := 0; p < nP; p++ {
				vsym.Assert(gen.Parameters.Get2(p, c) == params.Get2(p, lo+c), "generation-gets-its-own-parameter-columns")
			}
			for s := 0; s < nS; s++ {
				vsym.Assert(gen.States.Get2(c, s) == states.Get2(lo+c, s), "generation-gets-its-own-state-rows")
			}
			for i := 0; i < nI; i++ {
				for t := 0; t < T; t++ {
					if withInputs {
						vsym.Assert(gen.Inputs.Get3(c, i, t) == inputs.Get3(lo+c, i, t), "generation-gets-its-own-stored-inputs")
					} else {
						vsym.Assert(gen.Inputs.Get3(c, i, t) == 0, "missing-stored-inputs-are-zero")
					}
				}
			}
		}
	}
}

// H_C07_write_data: every generation is run and written once, in order: outputs, final states
// and final inputs of generation g land at node rows [batches[g-1], batches[g]) of the output
// datasets (created with the total node count), equal to a direct run of those nodes.
//vsym:prop=C07 tier=quick ints=int floats=real maxruns=400
func H_C07_write_data() {
	hdf5.Reset()
	vsym.Summarise("NoKernelImplicit")
	fn, out := "model.h5", "out.h5"
	batches := c07batchTable()
	T := 1
	params, states, inputs := c07file(fn, batches, T, true)
	mr, err := initModel(fn, c07model, fn)
	vsym.Assume(err == nil && mr != nil)
	mr.SimLength = T
	mr.OutputFilename, mr.FinalStatesFilename = out, out
	mr.WriteOutputs, mr.WriteStates, mr.WriteInputs = true, true, true
	total := int(batches[len(batches)-1])
	// the sequential reference: every node run once on its own
	ref := sim.Catalog[c07model]()
	ref.ApplyParameters(params)
	refStates := data.NewArray2DFloat64(total, states.Len(1))
	refStates.CopyFrom(states)
	refOut := sim.InitialiseOutputs(ref, T, total)
	ref.Run(inputs, refStates, refOut)
	for g := 0; g < len(batches); g++ {
		gen, gerr := mr.GetGeneration(g)
		vsym.Assume(gerr == nil && gen != nil)
		gen.Run()
		vsym.Assert(mr.WriteData(g) == nil, "write-succeeds")
	}
	vsym.Reach("written")
	if total == 0 {
		return
	}
	wo, e1 := (io.H5RefFloat64{Filename: out, Dataset: "/MODELS/" + c07model + "/outputs"}).Load()
	ws, e2 := (io.H5RefFloat64{Filename: out, Dataset: "/MODELS/" + c07model + "/states"}).Load()
	wi, e3 := (io.H5RefFloat64{Filename: out, Dataset: "/MODELS/" + c07model + "/inputs"}).Load()
	vsym.Assert(e1 == nil && e2 == nil && e3 == nil, "output-datasets-exist")
	if e1 != nil || e2 != nil || e3 != nil {
		return
	}
	vsym.Assert(wo.Len(0) == total && ws.Len(0) == total && wi.Len(0) == total, "output-datasets-have-one-row-per-node")
	nO := refOut.Len(1)
	for c := 0; c < total && c < wo.Len(0); c++ {
		for o := 0; o < nO; o++ {
			vsym.Assert(wo.Get([]int{c, o, 0}) == refOut.Get3(c, o, 0), "outputs-at-node-row-equal-sequential-reference")
		}
		for s := 0; s < states.Len(1); s++ {
			vsym.Assert(ws.Get([]int{c, s}) == refStates.Get2(c, s), "final-states-at-node-row-equal-sequential-reference")
		}
		for i := 0; i < inputs.Len(1); i++ {
			vsym.Assert(wi.Get([]int{c, i, 0}) == inputs.Get3(c, i, 0), "final-inputs-at-node-row")
		}
	}
}
