package fn

import (
	"math"

	"github.com/flowmatters/openwater-core/zzverif/vsym"
)

// c18root: FindRoot with an uninterpreted f (monotone non-decreasing when mono) on an arbitrary
// bracket with f(min) <= 0 <= f(max), arbitrary guess inside, tolerances > 0.
func c18root(iters int, mono bool, newton bool) {
	min0, max0 := vsym.Float64("min"), vsym.Float64("max")
	vsym.Assume(min0 < max0)
	x0 := vsym.Float64("guess")
	vsym.Assume(x0 >= min0 && x0 <= max0)
	tol, conv := vsym.Float64("tolerance"), vsym.Float64("convergence")
	vsym.Assume(tol > 0 && conv >= 0)
	f := func(x float64) float64 {
		vsym.Assert(x >= min0 && x <= max0, "function-evaluated-inside-interval")
		if mono {
			return vsym.UFMono1("f", x)
		}
		return vsym.UF1("f", x)
	}
	var fdx func(float64) float64
	if newton {
		fdx = func(x float64) float64 { return vsym.UF1("dfdx", x) }
	}
	fmin, fmax := vsym.UF1("f", min0), vsym.UF1("f", max0)
	if mono {
		fmin, fmax = vsym.UFMono1("f", min0), vsym.UFMono1("f", max0)
	}
	vsym.Assume(fmin <= 0 && fmax >= 0)
	// a bracket both of whose ends are exact roots makes the secant point 0/0; excluded for the
	// non-monotone case (for monotone f the halving point is then a root and is returned first)
	vsym.Assume(fmax-fmin > 0)
	x, delta := FindRoot(f, fdx, x0, min0, max0, tol, conv, iters)
	vsym.Reach("returned")
	vsym.Assert(x >= min0 && x <= max0, "result-inside-interval")
	fx := vsym.UF1("f", x)
	if mono {
		fx = vsym.UFMono1("f", x)
	}
	vsym.Assert(delta == fx, "returned-value-is-f-at-returned-point")
	if mono && iters > 0 {
		better := math.Min(math.Abs(fmin), math.Abs(fmax))
		vsym.Assert(math.Abs(delta) <= better || math.Abs(delta) < tol, "value-no-worse-than-better-end-or-below-tolerance")
		vsym.Assert(math.Abs(delta) <= better, "value-no-worse-than-better-end")
	}
}

// H_C18_root_mono_1: one iteration (= the loop body from an arbitrary bracket) with a monotone
// uninterpreted f, secant + halving trials.
//vsym:prop=C18 tier=quick ints=int floats=real timeout=120
func H_C18_root_mono_1() { c18root(1, true, false) }

// H_C18_root_mono_newton_1: same with a Newton trial from an arbitrary derivative function.
//vsym:prop=C18 tier=quick ints=int floats=real timeout=120
func H_C18_root_mono_newton_1() { c18root(1, true, true) }

// H_C18_root_any_1: one iteration, f merely has a sign change (no monotonicity).
//vsym:prop=C18 tier=quick ints=int floats=real timeout=120
func H_C18_root_any_1() { c18root(1, false, true) }

// H_C18_root_mono_2: two iterations, monotone f.
//vsym:prop=C18 tier=quick ints=int floats=real timeout=120
func H_C18_root_mono_2() { c18root(2, true, false) }

// H_C18_root_mono_3: three iterations, monotone f.
//vsym:prop=C18 tier=thorough ints=int floats=real timeout=300
func H_C18_root_mono_3() { c18root(3, true, false) }

// c18halving: the bracket at least halves in every iteration, observed from outside: the run
// with a budget of one iteration returns one END of the new bracket (x1); the run with a budget
// of two evaluates, first thing in its second iteration, the MIDPOINT of that bracket (h2); so
// the new width is 2|h2-x1| and must be at most half the old one.  From an arbitrary bracket
// and guess this is the inductive step of "after k iterations the bracket is at most
// (max-min)/2^k wide", i.e. of convergence whenever the budget suffices for interval halving.
func c18halving(mono, newton bool) {
	min0, max0 := vsym.Float64("min"), vsym.Float64("max")
	vsym.Assume(min0 < max0)
	x0 := vsym.Float64("guess")
	vsym.Assume(x0 >= min0 && x0 <= max0)
	tol, conv := vsym.Float64("tolerance"), vsym.Float64("convergence")
	vsym.Assume(tol > 0 && conv >= 0)
	var evals []float64
	f := func(x float64) float64 {
		evals = append(evals, x)
		if mono {
			return vsym.UFMono1("f", x)
		}
		return vsym.UF1("f", x)
	}
	var fdx func(float64) float64
	if newton {
		fdx = func(x float64) float64 { return vsym.UF1("dfdx", x) }
	}
	fmin, fmax := f(min0), f(max0)
	vsym.Assume(fmin <= 0 && fmax >= 0)
	vsym.Assume(fmax-fmin > 0)
	evals = evals[:0]
	x1, _ := FindRoot(f, fdx, x0, min0, max0, tol, conv, 1)
	n1 := len(evals)
	evals = evals[:0]
	FindRoot(f, fdx, x0, min0, max0, tol, conv, 2)
	vsym.Reach("two-budgets-compared")
	if len(evals) > n1 {
		h2 := evals[n1]
		vsym.Assert(4*math.Abs(h2-x1) <= max0-min0, "bracket-at-least-halves-per-iteration")
	}
}

// H_C18_root_halving: secant + halving trials, f with a sign change only.
//vsym:prop=C18 tier=quick ints=int floats=real timeout=120
func H_C18_root_halving() { c18halving(false, false) }

// H_C18_root_halving_newton: with a Newton trial from an arbitrary derivative.
//vsym:prop=C18 tier=quick ints=int floats=real timeout=120
func H_C18_root_halving_newton() { c18halving(false, true) }

// c18noPrematureStop: FindRoot may stop before its iteration budget is used only because a trial
// met the tolerance or because EVERY trial point of the current iteration (halving, secant and
// Newton) lies within the convergence limit of the current best point.  Observed from outside with
// budgets 1, 2 and 3 on the same arbitrary bracket, guess and function (sign change only): if the
// budget-3 run evaluated nothing beyond the budget-2 run and its value is not below the tolerance,
// it stopped in iteration 2, whose trial points (the evaluations after those of the budget-1 run)
// must then all be within the convergence limit of the budget-1 result; likewise for a stop in
// iteration 1 against the initial guess.  This is what "below the tolerance whenever the iteration
// budget suffices for interval halving" needs besides the halving step: the budget is actually
// used.
func c18noPrematureStop(newton bool) {
	min0, max0 := vsym.Float64("min"), vsym.Float64("max")
	vsym.Assume(min0 < max0)
	x0 := vsym.Float64("guess")
	vsym.Assume(x0 >= min0 && x0 <= max0)
	tol, conv := vsym.Float64("tolerance"), vsym.Float64("convergence")
	vsym.Assume(tol > 0 && conv >= 0)
	var evals []float64
	f := func(x float64) float64 {
		evals = append(evals, x)
		return vsym.UF1("f", x)
	}
	var fdx func(float64) float64
	if newton {
		fdx = func(x float64) float64 { return vsym.UF1("dfdx", x) }
	}
	fmin, fmax := f(min0), f(max0)
	vsym.Assume(fmin <= 0 && fmax >= 0)
	vsym.Assume(fmax-fmin > 0)
	evals = evals[:0]
	x1, _ := FindRoot(f, fdx, x0, min0, max0, tol, conv, 1)
	n1 := len(evals)
	ev1 := append([]float64{}, evals...)
	evals = evals[:0]
	_, d2 := FindRoot(f, fdx, x0, min0, max0, tol, conv, 2)
	n2 := len(evals)
	ev2 := append([]float64{}, evals...)
	evals = evals[:0]
	_, d3 := FindRoot(f, fdx, x0, min0, max0, tol, conv, 3)
	n3 := len(evals)
	vsym.Reach("three-budgets-compared")
	if n2 == n1 && math.Abs(d2) >= tol {
		// stopped in iteration 1 (three evaluations precede the first trial)
		for i := 3; i < n1; i++ {
			vsym.Assert(math.Abs(x0-ev1[i]) < conv, "stop-before-budget-only-when-every-trial-is-within-the-convergence-limit")
		}
	}
	if n3 == n2 && n2 > n1 && math.Abs(d3) >= tol {
		vsym.Reach("stopped-in-second-iteration")
		for i := n1; i < n2; i++ {
			vsym.Assert(math.Abs(x1-ev2[i]) < conv, "stop-before-budget-only-when-every-trial-is-within-the-convergence-limit")
		}
	}
}

// H_C18_root_no_premature_stop: secant + halving trials (see c18noPrematureStop).
//vsym:prop=C18 tier=quick ints=int floats=real timeout=120 maxruns=2000
func H_C18_root_no_premature_stop() { c18noPrematureStop(false) }

// H_C18_root_no_premature_stop_newton: with a Newton trial from an arbitrary derivative.
//vsym:prop=C18 tier=thorough ints=int floats=real timeout=120 maxruns=40000 wall=3000
func H_C18_root_no_premature_stop_newton() { c18noPrematureStop(true) }
