package fn

import (
	"math"

	"github.com/flowmatters/openwater-core/data"
	"github.com/flowmatters/openwater-core/zzverif/vsym"
)

func c18table(n int) (data.ND1Float64, data.ND1Float64) {
	xs, ys := data.NewArray1DFloat64(n), data.NewArray1DFloat64(n)
	for i := 0; i < n; i++ {
		xs.Set1(i, vsym.Float64("x"))
		ys.Set1(i, vsym.Float64("y"))
		if i > 0 {
			vsym.Assume(xs.Get1(i) > xs.Get1(i-1))
		}
	}
	return xs, ys
}

func c18piecewise(n int) {
	xs, ys := c18table(n)
	q := vsym.Float64("q")
	y, err := Piecewise(q, xs, ys)
	vsym.Reach("called")
	inside := q >= xs.Get1(0) && q <= xs.Get1(n-1)
	vsym.Assert((err == nil) == inside, "error-exactly-outside-the-table")
	if err != nil {
		return
	}
	for i := 0; i < n; i++ {
		if q == xs.Get1(i) {
			vsym.Assert(y == ys.Get1(i), "exact-table-value-at-knot")
		}
	}
	for i := 0; i+1 < n; i++ {
		x0, x1, y0, y1 := xs.Get1(i), xs.Get1(i+1), ys.Get1(i), ys.Get1(i+1)
		if q >= x0 && q <= x1 {
			vsym.AssertNear(y*(x1-x0), y0*(x1-x0)+(q-x0)*(y1-y0), 1e-12, 1e-9, "linear-interpolant-between-neighbours")
			vsym.Assert(y >= math.Min(y0, y1) && y <= math.Max(y0, y1), "value-between-neighbouring-table-values")
		}
	}
}

// H_C18_piecewise_2: 2 strictly increasing knots, arbitrary query (inside, at knots, outside).
//vsym:prop=C18 tier=quick ints=int floats=real
func H_C18_piecewise_2() { c18piecewise(2) }

// H_C18_piecewise_3: 3 knots.
//vsym:prop=C18 tier=quick ints=int floats=real
func H_C18_piecewise_3() { c18piecewise(3) }

// H_C18_piecewise_4: 4 knots.
//vsym:prop=C18 tier=quick ints=int floats=real
func H_C18_piecewise_4() { c18piecewise(4) }

// H_C18_piecewise_5: 5 knots.
//vsym:prop=C18 tier=thorough ints=int floats=real
func H_C18_piecewise_5() { c18piecewise(5) }

// H_C18_piecewise_nan: IEEE-754 semantics: a NaN query (any table of 3 non-NaN increasing knots)
// yields an error, never a number.
//vsym:prop=C18 tier=quick ints=int floats=fp
func H_C18_piecewise_nan() {
	xs, ys := c18table(3)
	q := vsym.Float64("q")
	vsym.Assume(math.IsNaN(q))
	_, err := Piecewise(q, xs, ys)
	vsym.Reach("called")
	vsym.Assert(err != nil, "nan-query-is-an-error")
}
