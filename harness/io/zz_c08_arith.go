package io

import (
	"github.com/flowmatters/openwater-core/zzverif/vsym"
)

// H_C08_slice_size: for every extent and every [start, stop, step] with 0 <= start, step >= 1
// (stop possibly beyond the extent), sliceSize is the number of indices start + k*step below
// min(stop, size), and the hyperslab (offset, stride, count, block) denotes exactly that set.
//vsym:prop=C08 tier=quick ints=int
func H_C08_slice_size() {
	size, start, stop, step := vsym.Int("size"), vsym.Int("start"), vsym.Int("stop"), vsym.Int("step")
	vsym.Assume(size >= 0 && size <= 1000000 && start >= 0 && start <= 1000000 && stop >= 0 && stop <= 1000000 && step >= 1 && step <= 1000000)
	n := sliceSize([]int{start, stop, step}, size)
	hi := stop
	if size < hi {
		hi = size
	}
	vsym.Reach("computed")
	vsym.Assert(n >= 0, "count-nonnegative")
	// every selected index is inside [start, hi) ...
	k := vsym.Int("k")
	vsym.Assume(k >= 0 && k < n)
	vsym.Assert(start+k*step < hi, "selected-indices-below-stop-and-extent")
	// ... and the selection is maximal: the next index is not
	vsym.Assert(start+n*step >= hi, "selection-is-maximal")
	off, str, cnt, blk := makeHyperslab([][]int{{start, stop, step}, nil}, []int{size, size})
	vsym.Assert(int(off[0]) == start && int(str[0]) == step && int(cnt[0]) == n && blk[0] == 1, "hyperslab-denotes-the-selection")
	vsym.Assert(off[1] == 0 && str[1] == 1 && int(cnt[1]) == size && blk[1] == 1, "nil-dimension-selects-everything")
}
