package io

//vsym:foreach ELEMTYPE io/hdf5.go

import (
	"github.com/flowmatters/openwater-core/data"
	"github.com/flowmatters/openwater-core/zzverif/vsym"
	"gonum.org/v1/hdf5"
)

func c08dims_ELEMTYPE(rank, B int) []int {
	d := make([]int, rank)
	for i := range d {
		x := vsym.Int("dim")
		vsym.Assume(x >= 1 && x <= B)
		d[i] = vsym.Concrete(x)
	}
	return d
}

func c08fill_ELEMTYPE(dims []int) data.NDELEMTITLE {
	a := data.NewArrayELEMTITLE(dims)
	idx := make([]int, len(dims))
	n := 1
	for _, d := range dims {
		n *= d
	}
	for k := 0; k < n; k++ {
		a.Set(idx, vsym.ELEMTITLE("cell"))
		data.Increment(idx, dims)
	}
	return a
}

func c08same_ELEMTYPE(a, b data.NDELEMTITLE, label string) {
	sa, sb := a.Shape(), b.Shape()
	vsym.Assert(len(sa) == len(sb), label+"-shape")
	if len(sa) != len(sb) {
		return
	}
	n := 1
	for i := range sa {
		vsym.Assert(sa[i] == sb[i], label+"-shape")
		if sa[i] != sb[i] {
			return
		}
		n *= sa[i]
	}
	idx := make([]int, len(sa))
	for k := 0; k < n; k++ {
		vsym.Assert(a.Get(idx) == b.Get(idx), label+"-values")
		data.Increment(idx, sa)
	}
}

// H_C08_roundtrip_ELEMTYPE: Write then Load through the HDF5 model returns the same shape and
// values, for contiguous sources and for a stepped (non-contiguous) source view; rank 1-2,
// extents <= 3, symbolic values.  Every library call is made under the package lock.
//vsym:prop=C08 tier=quick ints=int floats=real
func H_C08_roundtrip_ELEMTYPE() {
	hdf5.Reset()
	rank := vsym.Int("rank")
	vsym.Assume(rank >= 1 && rank <= 2)
	dims := c08dims_ELEMTYPE(vsym.Concrete(rank), 3)
	root := c08fill_ELEMTYPE(dims)
	var src data.NDELEMTITLE = root
	if vsym.Bool("stepped") {
		loc := make([]int, len(dims))
		vd := make([]int, len(dims))
		st := make([]int, len(dims))
		for i := range dims {
			st[i] = 1
			vd[i] = dims[i]
		}
		st[len(dims)-1] = 2
		vd[len(dims)-1] = (dims[len(dims)-1] + 1) / 2
		src = root.Slice(loc, vd, st)
	}
	ref := H5RefELEMTITLE{Filename: "f.h5", Dataset: "/g/d"}
	err := ref.Write(src)
	vsym.Assert(err == nil, "write-succeeds")
	back, err2 := ref.Load()
	vsym.Reach("loaded")
	vsym.Assert(err2 == nil && back != nil, "load-succeeds")
	if err2 == nil && back != nil {
		c08same_ELEMTYPE(back, src, "roundtrip")
	}
}

// H_C08_subset_ELEMTYPE: Load with a per-dimension [start, stop, step] selection (enumerated:
// start <= 2, stop <= 4 i.e. possibly beyond the extent, step <= 2, or nil) of a 2-D dataset
// (extents <= 3; one dimension selected, the other nil) returns exactly the in-memory slice start + k*step < min(stop, extent).
//vsym:prop=C08 tier=quick ints=int floats=real maxruns=20000 quicktypes=float64,uint32
func H_C08_subset_ELEMTYPE() {
	hdf5.Reset()
	dims := c08dims_ELEMTYPE(2, 3)
	root := c08fill_ELEMTYPE(dims)
	ref := H5RefELEMTITLE{Filename: "f.h5", Dataset: "/d"}
	vsym.Assume(ref.Write(root) == nil)
	sel := make([][]int, 2)
	loc, cnt, stp := []int{0, 0}, []int{dims[0], dims[1]}, []int{1, 1}
	any := false
	which := vsym.Int("selectedDim")
	vsym.Assume(which >= 0 && which <= 1)
	which = vsym.Concrete(which)
	for d := 0; d < 2; d++ {
		if d == which {
			a, b, s := vsym.Int("start"), vsym.Int("stop"), vsym.Int("step")
			vsym.Assume(a >= 0 && a <= 2 && b >= 1 && b <= 4 && s >= 1 && s <= 2)
			a, b, s = vsym.Concrete(a), vsym.Concrete(b), vsym.Concrete(s)
			sel[d] = []int{a, b, s}
			hi := b
			if dims[d] < hi {
				hi = dims[d]
			}
			n := 0
			for x := a; x < hi; x += s {
				n++
			}
			// an empty selection or a start beyond the extent is a degenerate request: skip
			vsym.Assume(n >= 1)
			loc[d], cnt[d], stp[d] = a, n, s
			any = true
		}
	}
	vsym.Assume(any)
	ref.Slice = sel
	got, err := ref.Load()
	vsym.Reach("loaded")
	vsym.Assert(err == nil && got != nil, "subset-load-succeeds")
	if err == nil && got != nil {
		c08same_ELEMTYPE(got, root.Slice(loc, cnt, stp), "subset-equals-in-memory-slice")
	}
}

// H_C08_writeslice_ELEMTYPE: WriteSlice of a (possibly stepped) block at a location changes
// exactly that block of the dataset; Create on an existing dataset never changes its contents
// and a different shape is refused.
//vsym:prop=C08 tier=quick ints=int floats=real maxruns=20000 quicktypes=float64,int32
func H_C08_writeslice_ELEMTYPE() {
	hdf5.Reset()
	dims := c08dims_ELEMTYPE(2, 3)
	root := c08fill_ELEMTYPE(dims)
	ref := H5RefELEMTITLE{Filename: "f.h5", Dataset: "/d"}
	vsym.Assume(ref.Write(root) == nil)
	// Create with the same shape: nothing changes; with another shape: refused, nothing changes
	var fill ELEMTYPE
	vsym.Assert(ref.Create(dims, fill, vsym.Bool("compress")) == nil, "create-existing-same-shape-succeeds")
	other := []int{dims[0] + 1, dims[1]}
	vsym.Assert(ref.Create(other, fill, false) != nil, "create-existing-other-shape-refused")
	same, errS := ref.Load()
	vsym.Assert(errS == nil && same != nil, "load-succeeds")
	if errS == nil && same != nil {
		c08same_ELEMTYPE(same, root, "create-existing-leaves-contents")
	}
	// block write
	bd := make([]int, 2)
	loc := make([]int, 2)
	for d := 0; d < 2; d++ {
		x, l := vsym.Int("blockdim"), vsym.Int("loc")
		vsym.Assume(x >= 1 && l >= 0 && l+x <= dims[d])
		bd[d], loc[d] = vsym.Concrete(x), vsym.Concrete(l)
	}
	blockRoot := c08fill_ELEMTYPE([]int{bd[0], 2 * bd[1]})
	// the source block is every second column of a wider array: a non-contiguous view
	block := blockRoot.Slice([]int{0, 0}, bd, []int{1, 2})
	err := ref.WriteSlice(block, loc)
	vsym.Assert(err == nil, "writeslice-succeeds")
	after, err2 := ref.Load()
	vsym.Reach("reloaded")
	vsym.Assert(err2 == nil && after != nil, "load-succeeds")
	if err2 != nil || after == nil {
		return
	}
	for i := 0; i < dims[0]; i++ {
		for j := 0; j < dims[1]; j++ {
			inside := i >= loc[0] && i < loc[0]+bd[0] && j >= loc[1] && j < loc[1]+bd[1]
			if inside {
				vsym.Assert(after.Get([]int{i, j}) == block.Get([]int{i - loc[0], j - loc[1]}), "block-written-at-location")
			} else {
				vsym.Assert(after.Get([]int{i, j}) == root.Get([]int{i, j}), "outside-block-unchanged")
			}
		}
	}
}
