package io

import (
	"math"

	"github.com/flowmatters/openwater-core/data"
	"github.com/flowmatters/openwater-core/zzverif/vsym"
)

// H_C17_jsonsafe_value: IEEE-754 doubles: NaN, +Inf, -Inf become exactly those strings, every
// other value is passed through unchanged (bit-identical).
//vsym:prop=C17 tier=quick ints=int floats=fp
func H_C17_jsonsafe_value() {
	v := vsym.Float64("v")
	r := JsonSafeValue(v)
	vsym.Reach("called")
	s, isStr := r.(string)
	f, isNum := r.(float64)
	if math.IsNaN(v) {
		vsym.Assert(isStr && s == "NaN", "nan-encoded-as-string-NaN")
	} else if math.IsInf(v, 1) {
		vsym.Assert(isStr && s == "+Inf", "plus-infinity-encoded-as-string")
	} else if math.IsInf(v, -1) {
		vsym.Assert(isStr && s == "-Inf", "minus-infinity-encoded-as-string")
	} else {
		vsym.Assert(isNum && f == v, "finite-value-unchanged")
	}
}

func c17nest(rank int) {
	dims := make([]int, rank)
	for i := range dims {
		d := vsym.Int("dim")
		vsym.Assume(d >= 1 && d <= 2)
		dims[i] = vsym.Concrete(d)
	}
	root := data.NewArrayFloat64(dims)
	size := 1
	for _, d := range dims {
		size *= d
	}
	idx := make([]int, rank)
	for k := 0; k < size; k++ {
		root.Set(idx, vsym.Float64("cell"))
		data.Increment(idx, dims)
	}
	var view data.NDFloat64 = root
	stepped := vsym.Bool("stepped")
	vd := make([]int, rank)
	copy(vd, dims)
	if stepped {
		// a non-contiguous view: every second element along the last axis
		loc := make([]int, rank)
		st := make([]int, rank)
		for i := range st {
			st[i] = 1
		}
		st[rank-1] = 2
		vd[rank-1] = (dims[rank-1] + 1) / 2
		view = root.Slice(loc, vd, st)
	}
	res := JsonSafeArray(view, 0)
	vsym.Reach("converted")
	// nesting equals the dimensions and leaves are the elements
	var walk func(v interface{}, depth int, at []int)
	walk = func(v interface{}, depth int, at []int) {
		if depth == rank {
			f, ok := v.(float64)
			vsym.Assert(ok, "leaf-is-a-number")
			if ok {
				vsym.Assert(f == view.Get(at), "leaf-is-the-array-element")
			}
			return
		}
		l, ok := v.([]interface{})
		vsym.Assert(ok && len(l) == vd[depth], "nesting-level-has-extent-of-dimension")
		if !ok {
			return
		}
		for i := 0; i < len(l) && i < vd[depth]; i++ {
			at2 := make([]int, rank)
			copy(at2, at)
			at2[depth] = i
			walk(l[i], depth+1, at2)
		}
	}
	walk(res, 0, make([]int, rank))
}

// H_C17_jsonsafe_array_r1: nesting of JsonSafeArray for rank-1 arrays/views (extents <= 2, contiguous and stepped).
//vsym:prop=C17 tier=quick ints=int floats=real
func H_C17_jsonsafe_array_r1() { c17nest(1) }

// H_C17_jsonsafe_array_r2: rank 2.
//vsym:prop=C17 tier=quick ints=int floats=real
func H_C17_jsonsafe_array_r2() { c17nest(2) }

// H_C17_jsonsafe_array_r3: rank 3.
//vsym:prop=C17 tier=quick ints=int floats=real
func H_C17_jsonsafe_array_r3() { c17nest(3) }

// c17nonfiniteArray: JsonSafeArray on arrays whose cells are ARBITRARY IEEE-754 doubles (any mix
// of finite values, NaN, +Inf, -Inf, in any position): every leaf is the string NaN / +Inf / -Inf
// exactly when the element is that value, and the element itself (bit-identical) otherwise.
// Extents: rank 1 up to 3, rank 2 up to 2 x 2.
func c17nonfiniteArray(rank int) {
	dims := make([]int, rank)
	for i := range dims {
		d := vsym.Int("dim")
		if rank == 1 {
			vsym.Assume(d >= 1 && d <= 3)
		} else {
			vsym.Assume(d >= 1 && d <= 2)
		}
		dims[i] = vsym.Concrete(d)
	}
	root := data.NewArrayFloat64(dims)
	size := 1
	for _, d := range dims {
		size *= d
	}
	idx := make([]int, rank)
	for k := 0; k < size; k++ {
		root.Set(idx, vsym.Float64("cell"))
		data.Increment(idx, dims)
	}
	res := JsonSafeArray(root, 0)
	vsym.Reach("converted")
	var walk func(v interface{}, depth int, at []int)
	walk = func(v interface{}, depth int, at []int) {
		if depth == rank {
			x := root.Get(at)
			s, isStr := v.(string)
			f, isNum := v.(float64)
			if math.IsNaN(x) {
				vsym.Assert(isStr && s == "NaN", "nan-element-encoded-as-string-NaN")
			} else if math.IsInf(x, 1) {
				vsym.Assert(isStr && s == "+Inf", "plus-infinity-element-encoded-as-string")
			} else if math.IsInf(x, -1) {
				vsym.Assert(isStr && s == "-Inf", "minus-infinity-element-encoded-as-string")
			} else {
				vsym.Assert(isNum && f == x, "finite-element-unchanged")
			}
			return
		}
		l, ok := v.([]interface{})
		vsym.Assert(ok && len(l) == dims[depth], "nesting-level-has-extent-of-dimension")
		if !ok {
			return
		}
		for i := 0; i < len(l) && i < dims[depth]; i++ {
			at2 := make([]int, rank)
			copy(at2, at)
			at2[depth] = i
			walk(l[i], depth+1, at2)
		}
	}
	walk(res, 0, make([]int, rank))
}

// H_C17_jsonsafe_array_nonfinite_r1: see c17nonfiniteArray, rank 1.
//vsym:prop=C17 tier=quick ints=int floats=fp maxruns=2000
func H_C17_jsonsafe_array_nonfinite_r1() { c17nonfiniteArray(1) }

// H_C17_jsonsafe_array_nonfinite_r2: rank 2.
//vsym:prop=C17 tier=quick ints=int floats=fp maxruns=4000
func H_C17_jsonsafe_array_nonfinite_r2() { c17nonfiniteArray(2) }
