package data

//vsym:foreach ELEMTYPE data/arrays_go.go

// H_C01_apply_r1_ELEMTYPE: Apply of a 1-D run (length <= B, step <= B) along a symbolic axis of a
// stepped view of a rank-1 array: every storage cell afterwards is the written value if addressed
// and its old value otherwise (both the contiguous copy() path and the element path).
//vsym:prop=C01 tier=quick ints=int
func H_C01_apply_r1_ELEMTYPE() { c01apply_ELEMTYPE(1) }

// H_C01_apply_r2_ELEMTYPE: same, rank 2.
//vsym:prop=C01 tier=quick ints=int
func H_C01_apply_r2_ELEMTYPE() { c01apply_ELEMTYPE(2) }

// H_C01_apply_r3_ELEMTYPE: same, rank 3.
//vsym:prop=C01 tier=thorough ints=int maxruns=20000
func H_C01_apply_r3_ELEMTYPE() { c01apply_ELEMTYPE(3) }


// H_C01_applyslice_r1_ELEMTYPE: ApplySlice of a stepped source view into a stepped destination
// view at symbolic loc/step (rank 1, extents <= B): addressed cells receive the source
// elements, all other cells and the whole source storage are unchanged.
//vsym:prop=C01 tier=quick ints=int
func H_C01_applyslice_r1_ELEMTYPE() { c01applySlice_ELEMTYPE(1, false) }

// H_C01_applyslice_r2_ELEMTYPE: same, rank 2.
//vsym:prop=C01 tier=quick ints=int maxruns=20000
func H_C01_applyslice_r2_ELEMTYPE() { c01applySlice_ELEMTYPE(2, false) }

// H_C01_copyfrom_r2_ELEMTYPE: CopyFrom between stepped views of equal shape, rank 2.
//vsym:prop=C01 tier=quick ints=int maxruns=20000
func H_C01_copyfrom_r2_ELEMTYPE() { c01applySlice_ELEMTYPE(2, true) }

// H_C01_copyfrom_r3_ELEMTYPE: CopyFrom, rank 3.
//vsym:prop=C01 tier=thorough ints=int maxruns=40000
func H_C01_copyfrom_r3_ELEMTYPE() { c01applySlice_ELEMTYPE(3, true) }

// H_C01_selfcopy_r1_ELEMTYPE: CopyFrom between two stepped views of the same rank-1 array
// (extents, origins, steps <= B), overlapping or not.
//vsym:prop=C01 tier=quick ints=int maxruns=20000
func H_C01_selfcopy_r1_ELEMTYPE() { c01selfCopy_ELEMTYPE(1) }

// H_C01_selfcopy_r2_ELEMTYPE: same, rank 2 (root B x B in the quick tier).
//vsym:prop=C01 tier=quick ints=int maxruns=20000
func H_C01_selfcopy_r2_ELEMTYPE() { c01selfCopy_ELEMTYPE(2) }
