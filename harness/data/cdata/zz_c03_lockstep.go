package cdata

//vsym:foreach ELEMTYPE data/cdata/arrays_c.go

import (
	"github.com/flowmatters/openwater-core/data"
	"github.com/flowmatters/openwater-core/zzverif/vsym"
)

func c03ints_ELEMTYPE(tag string, n int) []int {
	r := make([]int, n)
	for i := range r {
		r[i] = vsym.Int(tag + string(rune('0'+i)))
	}
	return r
}

// c03pair_ELEMTYPE: a Go-backed and a C-backed array of the same (enumerated) shape and the same
// symbolic contents.  The C array lives in a ghost buffer of exactly Product(dims) elements: any
// access outside it is a failed obligation (natively: red zones around the buffer).
func c03pair_ELEMTYPE(rank int) (data.NDELEMTITLE, data.NDELEMTITLE, []int) {
	return c03pairx_ELEMTYPE(rank, false)
}

// full: every extent is 3 (the views enumerate the smaller extents)
func c03pairx_ELEMTYPE(rank int, full bool) (data.NDELEMTITLE, data.NDELEMTITLE, []int) {
	dims := c03ints_ELEMTYPE("n", rank)
	n := 1
	for i := range dims {
		vsym.Assume(dims[i] >= 1 && dims[i] <= 3)
		if full {
			vsym.Assume(dims[i] == 3)
		}
		dims[i] = vsym.Concrete(dims[i])
		n *= dims[i]
	}
	c := NewELEMTITLECArray(vsym.CBufELEMTITLE("buf", n), dims)
	g := data.NewArrayELEMTITLE(dims)
	g.CopyFrom(c)
	return g, c, dims
}

func c03slice_ELEMTYPE(tag string, pd []int) ([]int, []int, []int) {
	rank := len(pd)
	loc, dims, step := c03ints_ELEMTYPE(tag+".loc", rank), c03ints_ELEMTYPE(tag+".dims", rank), c03ints_ELEMTYPE(tag+".step", rank)
	for i := 0; i < rank; i++ {
		vsym.Assume(loc[i] >= 0 && loc[i] < pd[i] && dims[i] >= 1 && dims[i] <= pd[i] && step[i] >= 1 && step[i] <= 3)
		vsym.Assume(loc[i]+(dims[i]-1)*step[i] < pd[i])
		dims[i] = vsym.Concrete(dims[i])
	}
	return loc, dims, step
}

func c03same_ELEMTYPE(a, b data.NDELEMTITLE, label string) {
	sa, sb := a.Shape(), b.Shape()
	vsym.Assert(len(sa) == len(sb), label)
	if len(sa) != len(sb) {
		return
	}
	n := 1
	for i := range sa {
		vsym.Assert(sa[i] == sb[i], label)
		if sa[i] != sb[i] {
			return
		}
		n *= sa[i]
	}
	idx := make([]int, len(sa))
	for k := 0; k < n; k++ {
		vsym.Assert(a.Get(idx) == b.Get(idx), label)
		data.Increment(idx, sa)
	}
}

func c03index_ELEMTYPE(tag string, dims []int) []int {
	idx := c03ints_ELEMTYPE(tag, len(dims))
	for i := range dims {
		vsym.Assume(idx[i] >= 0 && idx[i] < dims[i])
	}
	return idx
}

// H_C03_views_ELEMTYPE: lock-step: the same stepped slice of both arrays; Get, Set, Unroll,
// Maximum/Minimum, Contiguous agree and both roots stay equal after the write.
//vsym:prop=C03 tier=quick ints=int floats=real
func H_C03_views_ELEMTYPE() {
	g, c, dims := c03pair_ELEMTYPE(2)
	loc, vd, st := c03slice_ELEMTYPE("v", dims)
	vg, vc := g.Slice(loc, vd, st), c.Slice(loc, vd, st)
	i := c03index_ELEMTYPE("i", vd)
	vsym.Reach("sliced")
	vsym.Assert(vg.Get(i) == vc.Get(i), "get-agrees")
	vsym.Assert(vg.Contiguous() == vc.Contiguous(), "contiguous-agrees")
	vsym.Assert(vg.Maximum() == vc.Maximum() && vg.Minimum() == vc.Minimum(), "max-min-agree")
	ug, uc := vg.Unroll(), vc.Unroll()
	vsym.Assert(len(ug) == len(uc), "unroll-length-agrees")
	for k := 0; k < len(ug) && k < len(uc); k++ {
		vsym.Assert(ug[k] == uc[k], "unroll-agrees")
	}
	x := vsym.ELEMTITLE("x")
	vg.Set(i, x)
	vc.Set(i, x)
	c03same_ELEMTYPE(g, c, "roots-equal-after-set-through-view")
}

// H_C03_bulk_ELEMTYPE: lock-step Apply, ApplySlice (Go source into C destination and C source
// into Go destination) and CopyFrom on stepped views; roots stay equal.
//vsym:prop=C03 tier=quick ints=int floats=real maxruns=20000 quicktypes=float64,int32
func H_C03_bulk_ELEMTYPE() {
	g, c, dims := c03pairx_ELEMTYPE(2, true)
	loc, vd, st := c03slice_ELEMTYPE("v", dims)
	vg, vc := g.Slice(loc, vd, st), c.Slice(loc, vd, st)
	// Apply
	m := vsym.Int("m")
	dim := vsym.Int("dim")
	vsym.Assume(dim >= 0 && dim <= 1)
	dim = vsym.Concrete(dim)
	as := vsym.Int("astep")
	al := c03index_ELEMTYPE("aloc", vd)
	vsym.Assume(m >= 1 && m <= 3 && as >= 1 && as <= 2 && al[dim]+(m-1)*as < vd[dim])
	vsym.Assume(m == 2 || m == vd[dim])
	vals := make([]ELEMTYPE, vsym.Concrete(m))
	for k := range vals {
		vals[k] = vsym.ELEMTITLE("val")
	}
	al2 := []int{al[0], al[1]}
	vg.Apply(al, dim, as, vals)
	vc.Apply(al2, dim, as, vals)
	vsym.Reach("applied")
	c03same_ELEMTYPE(g, c, "roots-equal-after-apply")
	// ApplySlice / CopyFrom with sources of both kinds
	g2, c2, dims2 := c03pairx_ELEMTYPE(2, true)
	sloc, sd, sst := c03slice_ELEMTYPE("s", dims2)
	for a := 0; a < 2; a++ {
		vsym.Assume(sd[a] <= vd[a])
	}
	srcC := c2.Slice(sloc, sd, sst)
	srcG := g2.Slice(sloc, sd, sst)
	zero := []int{0, 0}
	vg.ApplySlice(zero, nil, srcC)
	vc.ApplySlice([]int{0, 0}, nil, srcG)
	c03same_ELEMTYPE(g, c, "roots-equal-after-applyslice-across-backends")
	full := vsym.Bool("copyWhole")
	if full {
		g.CopyFrom(c2)
		c.CopyFrom(g2)
		c03same_ELEMTYPE(g, c, "roots-equal-after-copyfrom-across-backends")
	}
}

// H_C03_reshape_ELEMTYPE: lock-step Reshape / ReshapeFast of views (contiguous and not) to rank
// 1: same error behaviour, same contents, and the same aliasing behaviour (a write through the
// reshaped array reaches the original iff the view was contiguous).
//vsym:prop=C03 tier=quick ints=int floats=real maxruns=20000
func H_C03_reshape_ELEMTYPE() {
	g, c, dims := c03pairx_ELEMTYPE(2, true)
	loc, vd, st := c03slice_ELEMTYPE("v", dims)
	vg, vc := g.Slice(loc, vd, st), c.Slice(loc, vd, st)
	n := vd[0] * vd[1]
	fast := vsym.Bool("fast")
	var rg, rc data.NDELEMTITLE
	var eg, ec error
	if fast {
		rg, eg = vg.ReshapeFast([]int{n})
		rc, ec = vc.ReshapeFast([]int{n})
	} else {
		rg, eg = vg.Reshape([]int{n})
		rc, ec = vc.Reshape([]int{n})
	}
	vsym.Reach("reshaped")
	vsym.Assert((eg == nil) == (ec == nil), "reshape-error-agrees")
	if eg != nil || ec != nil {
		return
	}
	c03same_ELEMTYPE(rg, rc, "reshaped-contents-agree")
	k := vsym.Int("k")
	vsym.Assume(k >= 0 && k < n)
	x := vsym.ELEMTITLE("x")
	rg.Set([]int{k}, x)
	rc.Set([]int{k}, x)
	c03same_ELEMTYPE(g, c, "roots-equal-after-write-through-reshaped")
}
