package cdata

import (
	"math"

	"github.com/flowmatters/openwater-core/data"
	"github.com/flowmatters/openwater-core/zzverif/vsym"
)

// H_C03_extremes_ieee: IEEE-754 model: a Go-backed and a C-backed float64 array of 1-3 ARBITRARY
// doubles (NaN, infinities, signed zeros included): Maximum and Minimum agree (same value, or both
// NaN) - the two back-ends must treat missing values (NaN) alike.
//vsym:prop=C03 tier=quick ints=int floats=fp timeout=60 maxruns=2000
func H_C03_extremes_ieee() {
	n := vsym.Int("n")
	vsym.Assume(n >= 1 && n <= 3)
	n = vsym.Concrete(n)
	dims := []int{n}
	c := NewFloat64CArray(vsym.CBufFloat64("buf", n), dims)
	g := data.NewArrayFloat64(dims)
	g.CopyFrom(c)
	vsym.Reach("built")
	gm, cm := g.Maximum(), c.Maximum()
	vsym.Assert(gm == cm || (math.IsNaN(gm) && math.IsNaN(cm)), "maximum-agrees-including-nan")
	gn, cn := g.Minimum(), c.Minimum()
	vsym.Assert(gn == cn || (math.IsNaN(gn) && math.IsNaN(cn)), "minimum-agrees-including-nan")
}
