package data

//vsym:foreach ELEMTYPE data/arrays_go.go

import (
	"github.com/flowmatters/openwater-core/zzverif/vsym"
)

// c01ints_ELEMTYPE: n fresh symbolic ints
func c01ints_ELEMTYPE(tag string, n int) []int {
	r := make([]int, n)
	for i := 0; i < n; i++ {
		r[i] = vsym.Int(tag + string(rune('0'+i)))
	}
	return r
}

// c01deep: the thorough tier's larger bound (extents up to 4, every root extent enumerated) is
// spent on one element type (float64); the other seven instantiations of the same template keep the quick
// bound there too (the full product ran past 100 minutes and 60 GB)
func c01deep_ELEMTYPE() bool {
	return vsym.Thorough() && "ELEMTYPE" == "float64"
}

func c01bound_ELEMTYPE() int {
	if c01deep_ELEMTYPE() {
		return 4
	}
	return 3
}

// c01root_ELEMTYPE: fresh array through the public constructor, extents symbolic in [1,B],
// contents symbolic.  Returns the array, its extents and the harness's own row-major offsets.
func c01root_ELEMTYPE(rank int) (*ndELEMTYPE, []int, []int) {
	return c01rootx_ELEMTYPE(rank, false)
}

// full: every root extent is B (the views enumerate all smaller extents)
func c01rootx_ELEMTYPE(rank int, full bool) (*ndELEMTYPE, []int, []int) {
	B := c01bound_ELEMTYPE()
	dims := c01ints_ELEMTYPE("n", rank)
	for i := 0; i < rank; i++ {
		vsym.Assume(dims[i] >= 1 && dims[i] <= B)
		if full {
			vsym.Assume(dims[i] == B)
		}
		dims[i] = vsym.Concrete(dims[i])
	}
	r := NewArrayELEMTITLE(dims).(*ndELEMTYPE)
	for k := 0; k < len(r.Impl); k++ {
		r.Impl[k] = vsym.ELEMTITLE("cell")
	}
	off := make([]int, rank)
	o := 1
	for i := rank - 1; i >= 0; i-- {
		off[i] = o
		o *= dims[i]
	}
	return r, dims, off
}

// c01slice_ELEMTYPE: arbitrary in-bounds (loc, dims, step) of a parent with extents pd
func c01slice_ELEMTYPE(tag string, pd []int) ([]int, []int, []int) {
	rank := len(pd)
	loc := c01ints_ELEMTYPE(tag+".loc", rank)
	dims := c01ints_ELEMTYPE(tag+".dims", rank)
	step := c01ints_ELEMTYPE(tag+".step", rank)
	B := c01bound_ELEMTYPE()
	for i := 0; i < rank; i++ {
		vsym.Assume(loc[i] >= 0 && loc[i] < pd[i] && dims[i] >= 1 && dims[i] <= pd[i] && step[i] >= 1 && step[i] <= B)
		vsym.Assume(loc[i]+(dims[i]-1)*step[i] < pd[i])
		dims[i] = vsym.Concrete(dims[i])
	}
	return loc, dims, step
}

func c01index_ELEMTYPE(tag string, dims []int) []int {
	idx := c01ints_ELEMTYPE(tag, len(dims))
	for i := range dims {
		vsym.Assume(idx[i] >= 0 && idx[i] < dims[i])
	}
	return idx
}

// c01onev_ELEMTYPE: root array plus one arbitrary in-bounds stepped slice of it; returns root,
// view, view extents and the affine map (org, stp, off) from view index to storage cell.
func c01onev_ELEMTYPE(tag string, r *ndELEMTYPE, n []int) (NDELEMTITLE, []int, []int, []int) {
	loc, dims, step := c01slice_ELEMTYPE(tag, n)
	return r.Slice(loc, dims, step), dims, loc, step
}

func c01cell_ELEMTYPE(idx, org, stp, off []int) int {
	c := 0
	for a := range idx {
		c += (org[a] + idx[a]*stp[a]) * off[a]
	}
	return c
}

