package data

//vsym:foreach ELEMTYPE data/arrayops.go

import (
	"github.com/flowmatters/openwater-core/zzverif/vsym"
)

// which: 0 ApplyFunc1 (fn(v) = v + c), 1 Scale, 2 AddTo
func c02arrayop_ELEMTYPE(rank int, which int) {
	fullRoot := rank >= 2 && !c01deep_ELEMTYPE()
	dr, dn, doff := c01rootx_ELEMTYPE(rank, fullRoot)
	dloc, dims, dstep := c01slice_ELEMTYPE("d", dn)
	dest := dr.Slice(dloc, dims, dstep)
	B := c01bound_ELEMTYPE()
	sn := c01ints_ELEMTYPE("sn", rank)
	for i := 0; i < rank; i++ {
		vsym.Assume(sn[i] >= 1 && sn[i] <= B)
		if fullRoot {
			vsym.Assume(sn[i] == B)
		}
		sn[i] = vsym.Concrete(sn[i])
	}
	sr := NewArrayELEMTITLE(sn).(*ndELEMTYPE)
	for k := 0; k < len(sr.Impl); k++ {
		sr.Impl[k] = vsym.ELEMTITLE("src")
	}
	soff := make([]int, rank)
	o := 1
	for i := rank - 1; i >= 0; i-- {
		soff[i] = o
		o *= sn[i]
	}
	sloc := c01ints_ELEMTYPE("s.loc", rank)
	sstep := c01ints_ELEMTYPE("s.step", rank)
	for a := 0; a < rank; a++ {
		vsym.Assume(sloc[a] >= 0 && sloc[a] < sn[a] && sstep[a] >= 1 && sstep[a] <= B && sloc[a]+(dims[a]-1)*sstep[a] < sn[a])
	}
	src := sr.Slice(sloc, dims, sstep)
	dold := make([]ELEMTYPE, len(dr.Impl))
	copy(dold, dr.Impl)
	sold := make([]ELEMTYPE, len(sr.Impl))
	copy(sold, sr.Impl)
	c := vsym.ELEMTITLE("c")
	vsym.Reach("arrayop")
	switch which {
	case 0:
		ApplyFunc1ELEMTITLE(dest, src, func(v ELEMTYPE) ELEMTYPE { return v + c })
	case 1:
		ScaleELEMTITLEArray(dest, src, c)
	case 2:
		AddToELEMTITLEArray(dest, src)
	}
	e := c01index_ELEMTYPE("e", dims)
	dc := c01cell_ELEMTYPE(e, dloc, dstep, doff)
	sc := c01cell_ELEMTYPE(e, sloc, sstep, soff)
	switch which {
	case 0:
		vsym.Assert(dr.Impl[dc] == sold[sc]+c, "applyfunc-elementwise")
	case 1:
		vsym.Assert(dr.Impl[dc] == sold[sc]*c, "scale-elementwise")
	case 2:
		vsym.Assert(dr.Impl[dc] == dold[dc]+sold[sc], "addto-elementwise")
	}
	q := vsym.Int("q")
	vsym.Assume(q >= 0 && q < len(sr.Impl))
	vsym.Assert(sr.Impl[q] == sold[q], "source-unchanged")
	// frame on the destination storage
	kk := vsym.Int("k")
	vsym.Assume(kk >= 0 && kk < len(dr.Impl))
	hit := false
	size := 1
	for _, d := range dims {
		size *= d
	}
	for p := 0; p < size; p++ {
		idx := make([]int, rank)
		pp := p
		for a := rank - 1; a >= 0; a-- {
			idx[a] = pp % dims[a]
			pp /= dims[a]
		}
		hit = vsym.Or(hit, c01cell_ELEMTYPE(idx, dloc, dstep, doff) == kk)
	}
	vsym.Assert(vsym.Or(hit, dr.Impl[kk] == dold[kk]), "unaddressed-destination-cell-unchanged")
}

// H_C02_applyfunc_r2_ELEMTYPE: ApplyFunc1 between stepped views (all four contiguity
// combinations arise from the symbolic loc/step), rank 2, extents <= B.
//vsym:prop=C02 tier=quick ints=int maxruns=20000
func H_C02_applyfunc_r2_ELEMTYPE() { c02arrayop_ELEMTYPE(2, 0) }

// H_C02_scale_r1_ELEMTYPE: Scale<T>Array, rank 1.
//vsym:prop=C02 tier=quick ints=int
func H_C02_scale_r1_ELEMTYPE() { c02arrayop_ELEMTYPE(1, 1) }

// H_C02_addto_r2_ELEMTYPE: AddTo<T>Array, rank 2.
//vsym:prop=C02 tier=quick ints=int maxruns=20000
func H_C02_addto_r2_ELEMTYPE() { c02arrayop_ELEMTYPE(2, 2) }

// H_C02_addto_r3_ELEMTYPE: AddTo<T>Array, rank 3.
//vsym:prop=C02 tier=thorough ints=int maxruns=40000
func H_C02_addto_r3_ELEMTYPE() { c02arrayop_ELEMTYPE(3, 2) }
