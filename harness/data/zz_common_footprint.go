package data

//vsym:foreach ELEMTYPE data/arrays_go.go

import (
	"github.com/flowmatters/openwater-core/zzverif/vsym"
)



func c01apply_ELEMTYPE(rank int) {
	r, n, off := c01root_ELEMTYPE(rank)
	v, vd, org, stp := c01onev_ELEMTYPE("v", r, n)
	B := c01bound_ELEMTYPE()
	m := vsym.Int("m")
	vsym.Assume(m >= 1 && m <= B)
	vals := make([]ELEMTYPE, m)
	for j := range vals {
		vals[j] = vsym.ELEMTITLE("val")
	}
	dim := vsym.Int("dim")
	vsym.Assume(dim >= 0 && dim < rank)
	step := vsym.Int("astep")
	vsym.Assume(step >= 1 && step <= B)
	loc := c01index_ELEMTYPE("aloc", vd)
	vsym.Assume(loc[dim]+(m-1)*step < vd[dim])
	locBefore := make([]int, rank)
	copy(locBefore, loc)
	old := make([]ELEMTYPE, len(r.Impl))
	copy(old, r.Impl)
	vsym.Reach("apply")
	v.Apply(loc, dim, step, vals)
	for a := 0; a < rank; a++ {
		vsym.Assert(loc[a] == locBefore[a], "apply-restores-caller-loc")
	}
	// addressed cells
	j := vsym.Int("j")
	vsym.Assume(j >= 0 && j < m)
	jidx := make([]int, rank)
	copy(jidx, locBefore)
	jidx[dim] = locBefore[dim] + j*step
	vsym.Assert(r.Impl[c01cell_ELEMTYPE(jidx, org, stp, off)] == vals[j], "apply-addressed-cell-gets-value")
	// frame
	kk := vsym.Int("k")
	vsym.Assume(kk >= 0 && kk < len(r.Impl))
	hit := false
	for q := 0; q < m; q++ {
		idx := make([]int, rank)
		copy(idx, locBefore)
		idx[dim] = locBefore[dim] + q*step
		hit = vsym.Or(hit, c01cell_ELEMTYPE(idx, org, stp, off) == kk)
	}
	vsym.Assert(vsym.Or(hit, r.Impl[kk] == old[kk]), "apply-unaddressed-cell-unchanged")
}

func c01applySlice_ELEMTYPE(rank int, copyFrom bool) {
	// quick tier, rank >= 2: both root arrays are B x B (x B); every smaller view extent is
	// enumerated.  thorough tier: every root shape as well.
	fullRoot := rank >= 2 && !c01deep_ELEMTYPE()
	r, n, off := c01rootx_ELEMTYPE(rank, fullRoot)
	v, vd, org, stp := c01onev_ELEMTYPE("v", r, n)
	// source: a second, independent array with its own stepped view
	B := c01bound_ELEMTYPE()
	sn := c01ints_ELEMTYPE("sn", rank)
	for i := 0; i < rank; i++ {
		vsym.Assume(sn[i] >= 1 && sn[i] <= B)
		if fullRoot {
			vsym.Assume(sn[i] == B)
		}
		sn[i] = vsym.Concrete(sn[i])
	}
	sr := NewArrayELEMTITLE(sn).(*ndELEMTYPE)
	for k := 0; k < len(sr.Impl); k++ {
		sr.Impl[k] = vsym.ELEMTITLE("src")
	}
	sloc, sdims, sstep := c01slice_ELEMTYPE("sv", sn)
	src := sr.Slice(sloc, sdims, sstep)
	soff := make([]int, rank)
	o := 1
	for i := rank - 1; i >= 0; i-- {
		soff[i] = o
		o *= sn[i]
	}
	var loc, step []int
	if copyFrom {
		for a := 0; a < rank; a++ {
			vsym.Assume(sdims[a] == vd[a])
		}
		loc = make([]int, rank)
		step = make([]int, rank)
		for a := 0; a < rank; a++ {
			step[a] = 1
		}
	} else {
		loc = c01index_ELEMTYPE("dloc", vd)
		step = c01ints_ELEMTYPE("dstep", rank)
		for a := 0; a < rank; a++ {
			vsym.Assume(step[a] >= 1 && step[a] <= B && loc[a]+(sdims[a]-1)*step[a] < vd[a])
		}
	}
	old := make([]ELEMTYPE, len(r.Impl))
	copy(old, r.Impl)
	sold := make([]ELEMTYPE, len(sr.Impl))
	copy(sold, sr.Impl)
	vsym.Reach("applyslice")
	if copyFrom {
		v.CopyFrom(src)
	} else {
		v.ApplySlice(loc, step, src)
	}
	for k := 0; k < len(sr.Impl); k++ {
		vsym.Assert(sr.Impl[k] == sold[k], "source-unchanged")
	}
	// expected: cell k of the destination storage receives src element e iff k is the cell of
	// destination element loc + e*step
	e := c01index_ELEMTYPE("e", sdims)
	didx := make([]int, rank)
	for a := 0; a < rank; a++ {
		didx[a] = loc[a] + e[a]*step[a]
	}
	dc := c01cell_ELEMTYPE(didx, org, stp, off)
	sc := c01cell_ELEMTYPE(e, sloc, sstep, soff)
	vsym.Assert(r.Impl[dc] == sold[sc], "addressed-cell-gets-source-element")
	// frame: a cell that is not the image of any source element keeps its value
	kk := vsym.Int("k")
	vsym.Assume(kk >= 0 && kk < len(r.Impl))
	hit := false
	ee := make([]int, rank)
	var walk func(a int)
	walk = func(a int) {
		if a == rank {
			di := make([]int, rank)
			for b := 0; b < rank; b++ {
				di[b] = loc[b] + ee[b]*step[b]
			}
			hit = vsym.Or(hit, c01cell_ELEMTYPE(di, org, stp, off) == kk)
			return
		}
		for x := 0; x < sdims[a]; x++ {
			ee[a] = x
			walk(a + 1)
		}
	}
	walk(0)
	vsym.Assert(vsym.Or(hit, r.Impl[kk] == old[kk]), "unaddressed-cell-unchanged")
}


// c01selfCopy_ELEMTYPE: CopyFrom where destination and source are two arbitrary stepped views of
// the SAME root array (equal shape; they may overlap, share their first element, or be the same
// view).  Expected storage afterwards: either the "snapshot" result (every destination element
// receives the value its source element had before the call) or the "forward" result (elements
// copied one by one in row-major order, later reads seeing earlier writes) - the implementation
// uses one or the other depending on contiguity, and the property fixes the addressed cells and
// the frame, not the order.  Every cell outside the destination's footprint keeps its value in
// both.
func c01selfCopy_ELEMTYPE(rank int) {
	fullRoot := rank >= 2 && !c01deep_ELEMTYPE()
	r, n, off := c01rootx_ELEMTYPE(rank, fullRoot)
	v, vd, org, stp := c01onev_ELEMTYPE("v", r, n)
	sloc, sdims, sstep := c01slice_ELEMTYPE("sv", n)
	for a := 0; a < rank; a++ {
		vsym.Assume(sdims[a] == vd[a])
	}
	src := r.Slice(sloc, sdims, sstep)
	old := make([]ELEMTYPE, len(r.Impl))
	copy(old, r.Impl)
	vsym.Reach("selfcopy")
	v.CopyFrom(src)
	snap := make([]ELEMTYPE, len(old))
	copy(snap, old)
	seq := make([]ELEMTYPE, len(old))
	copy(seq, old)
	e := make([]int, rank)
	var walk func(a int)
	walk = func(a int) {
		if a == rank {
			dc := c01cell_ELEMTYPE(e, org, stp, off)
			sc := c01cell_ELEMTYPE(e, sloc, sstep, off)
			snap[dc] = old[sc]
			seq[dc] = seq[sc]
			return
		}
		for x := 0; x < vd[a]; x++ {
			e[a] = x
			walk(a + 1)
		}
	}
	walk(0)
	okSnap, okSeq := true, true
	for k := 0; k < len(old); k++ {
		okSnap = vsym.And(okSnap, r.Impl[k] == snap[k])
		okSeq = vsym.And(okSeq, r.Impl[k] == seq[k])
	}
	vsym.Assert(vsym.Or(okSnap, okSeq), "copy-between-views-of-one-array-writes-the-addressed-cells")
}
