package data

//vsym:foreach ELEMTYPE data/arrays_go.go

import (
	"github.com/flowmatters/openwater-core/zzverif/vsym"
)






func c01chain_ELEMTYPE(rank int, depth int) {
	r, n, off := c01root_ELEMTYPE(rank)
	var v NDELEMTITLE = r
	pd := n
	// composed affine map from view index to root index: root[a] = org[a] + idx[a]*stp[a]
	org := make([]int, rank)
	stp := make([]int, rank)
	for a := 0; a < rank; a++ {
		stp[a] = 1
	}
	for d := 0; d < depth; d++ {
		loc, dims, step := c01slice_ELEMTYPE("s"+string(rune('0'+d)), pd)
		v = v.Slice(loc, dims, step)
		for a := 0; a < rank; a++ {
			org[a] += loc[a] * stp[a]
			stp[a] *= step[a]
		}
		pd = dims
	}
	idx := c01index_ELEMTYPE("i", pd)
	ri := 0
	rootIdx := make([]int, rank)
	for a := 0; a < rank; a++ {
		rootIdx[a] = org[a] + idx[a]*stp[a]
		ri += rootIdx[a] * off[a]
	}
	vsym.Reach("chain")
	got := v.Get(idx)
	vsym.Assert(got == r.Get(rootIdx), "chain-get-equals-root-element")
	vsym.Assert(got == r.Impl[ri], "chain-get-equals-storage-cell")
	// live view: a write through the root is visible through the chain and vice versa
	x := vsym.ELEMTITLE("x")
	r.Set(rootIdx, x)
	vsym.Assert(v.Get(idx) == x, "root-write-visible-through-view")
	y := vsym.ELEMTITLE("y")
	old := make([]ELEMTYPE, len(r.Impl))
	copy(old, r.Impl)
	v.Set(idx, y)
	vsym.Assert(r.Get(rootIdx) == y, "view-write-visible-through-root")
	for k := 0; k < len(r.Impl); k++ {
		if k == ri {
			vsym.Assert(r.Impl[k] == y, "set-writes-addressed-cell")
		} else {
			vsym.Assert(r.Impl[k] == old[k], "set-writes-nothing-else")
		}
	}
}

// H_C01_chain2_r1_ELEMTYPE: slice of a slice of a fresh rank-1 array (extent <= B), all of
// loc/dims/step/index symbolic and in bounds, steps <= B; Get/Set through the chain vs. root.
//vsym:prop=C01 tier=quick ints=int
func H_C01_chain2_r1_ELEMTYPE() { c01chain_ELEMTYPE(1, 2) }

// H_C01_chain2_r2_ELEMTYPE: depth-2 chain, rank 2, extents <= B per axis.
//vsym:prop=C01 tier=quick ints=int
func H_C01_chain2_r2_ELEMTYPE() { c01chain_ELEMTYPE(2, 2) }

// H_C01_chain1_r3_ELEMTYPE: depth-1 chain (one stepped slice), rank 3, extents <= B per axis.
//vsym:prop=C01 tier=quick ints=int
func H_C01_chain1_r3_ELEMTYPE() { c01chain_ELEMTYPE(3, 1) }

// H_C01_chain3_r1_ELEMTYPE: depth-3 chain, rank 1.
//vsym:prop=C01 tier=thorough ints=int
func H_C01_chain3_r1_ELEMTYPE() { c01chain_ELEMTYPE(1, 3) }

// H_C01_chain2_r3_ELEMTYPE: depth-2 chain, rank 3.
//vsym:prop=C01 tier=thorough ints=int
func H_C01_chain2_r3_ELEMTYPE() { c01chain_ELEMTYPE(3, 2) }
