package data

import (
	"github.com/flowmatters/openwater-core/zzverif/vsym"
)

func c02vec(tag string, n int) []int {
	r := make([]int, n)
	for i := 0; i < n; i++ {
		r[i] = vsym.Int(tag + string(rune('0'+i)))
	}
	return r
}

func c02helpersWrap(n int) {
	v := c02vec("v", n)
	w := c02vec("w", n)
	// Product / Multiply / dotProduct / Offsets against their definitions, 64-bit wrapping on both sides
	p := 1
	for i := 0; i < n; i++ {
		p *= v[i]
	}
	vsym.Reach("helpers")
	vsym.Assert(Product(v) == p, "product-definition")
	m := Multiply(v, w)
	vsym.Assert(len(m) == n, "multiply-length")
	dp := 0
	for i := 0; i < n; i++ {
		vsym.Assert(m[i] == v[i]*w[i], "multiply-pointwise")
		dp += v[i] * w[i]
	}
	vsym.Assert(dotProduct(v, w) == dp, "dotproduct-definition")
	off := Offsets(v)
	vsym.Assert(len(off) == n, "offsets-length")
	for i := 0; i < n; i++ {
		e := 1
		for j := i + 1; j < n; j++ {
			e *= v[j]
		}
		vsym.Assert(off[i] == e, "offsets-are-trailing-products")
	}
	d := decrement(v)
	for i := 0; i < n; i++ {
		vsym.Assert(d[i] == v[i]-1, "decrement-pointwise")
	}
	// Maximum / Argmax
	mx := Maximum(v)
	am := Argmax(v)
	vsym.Assert(am >= 0 && am < n, "argmax-in-range")
	isElem := false
	for i := 0; i < n; i++ {
		vsym.Assert(mx >= v[i], "maximum-bounds-all")
		isElem = vsym.Or(isElem, mx == v[i])
	}
	vsym.Assert(isElem, "maximum-is-an-element")
	if am >= 0 && am < n {
		vsym.Assert(v[am] == mx, "argmax-points-at-maximum")
		for i := 0; i < n; i++ {
			vsym.Assert(vsym.Implies(i < am, v[i] < mx), "argmax-is-least-index")
		}
	}
}

// H_C02_helpers_len1: Product, Multiply, dotProduct, Offsets, decrement, Maximum, Argmax on
// arbitrary 64-bit vectors of length 1 (wrapping arithmetic on both sides).
//vsym:prop=C02 tier=quick ints=bv
func H_C02_helpers_len1() { c02helpersWrap(1) }

// H_C02_helpers_len2: same, length 2.
//vsym:prop=C02 tier=quick ints=bv
func H_C02_helpers_len2() { c02helpersWrap(2) }

// H_C02_helpers_len3: same, length 3.
//vsym:prop=C02 tier=quick ints=bv
func H_C02_helpers_len3() { c02helpersWrap(3) }

// H_C02_helpers_len4: same, length 4.
//vsym:prop=C02 tier=quick ints=bv
func H_C02_helpers_len4() { c02helpersWrap(4) }

func c02radix(n int, B int) {
	dims := c02vec("d", n)
	for i := 0; i < n; i++ {
		vsym.Assume(dims[i] >= 1 && dims[i] <= B)
		dims[i] = vsym.Concrete(dims[i]) // radix enumerated; position k stays symbolic
	}
	off := Offsets(dims)
	total := Product(dims)
	k := vsym.Int("k")
	vsym.Assume(k >= 0 && k < total)
	// IDivMod with the offsets is the row-major multi-index of k
	idx := IDivMod(k, off, dims)
	vsym.Reach("radix")
	back := 0
	for i := 0; i < n; i++ {
		vsym.Assert(idx[i] >= 0 && idx[i] < dims[i], "idivmod-digit-in-range")
		vsym.Assert(idx[i] == (k/off[i])%dims[i], "idivmod-definition")
		back += idx[i] * off[i]
	}
	vsym.Assert(back == k, "idivmod-is-rowmajor-inverse")
	// Increment is the row-major successor (wrapping to zero after the last element)
	Increment(idx, dims)
	nxt := 0
	for i := 0; i < n; i++ {
		vsym.Assert(idx[i] >= 0 && idx[i] < dims[i], "increment-digit-in-range")
		nxt += idx[i] * off[i]
	}
	if k+1 < total {
		vsym.Assert(nxt == k+1, "increment-is-successor")
	} else {
		vsym.Assert(nxt == 0, "increment-wraps-to-zero")
	}
}

// H_C02_radix_len1: IDivMod/Increment against mixed-radix arithmetic, 1 digit, extents <= 6.
//vsym:prop=C02 tier=quick ints=int
func H_C02_radix_len1() { c02radix(1, 6) }

// H_C02_radix_len2: 2 digits, extents <= 6.
//vsym:prop=C02 tier=quick ints=int
func H_C02_radix_len2() { c02radix(2, 6) }

// H_C02_radix_len3: 3 digits, extents <= 5.
//vsym:prop=C02 tier=quick ints=int
func H_C02_radix_len3() { c02radix(3, 5) }

// H_C02_radix_len4: 4 digits, extents <= 4.
//vsym:prop=C02 tier=thorough ints=int
func H_C02_radix_len4() { c02radix(4, 4) }
