package data

//vsym:foreach ELEMTYPE data/arrays_go.go

import (
	"github.com/flowmatters/openwater-core/zzverif/vsym"
)


// c01view_ELEMTYPE builds an arbitrary member of the family of views reachable from a
// root array by slicing: root extents od, per-axis origin o, extents dims, accumulated step st.
// Representation invariant (the one the constructors establish and Slice must preserve):
// Offset = row-major offsets of OriginalDims, OffsetStep = Offset*Step, Start = Σ o[i]*Offset[i].
func c01view_ELEMTYPE(tag string, rank int, impl []ELEMTYPE) (*ndELEMTYPE, []int) {
	od := c01ints_ELEMTYPE(tag+".od", rank)
	o := c01ints_ELEMTYPE(tag+".o", rank)
	dims := c01ints_ELEMTYPE(tag+".dims", rank)
	st := c01ints_ELEMTYPE(tag+".step", rank)
	v := &ndELEMTYPE{}
	v.Impl = impl
	v.OriginalDims = od
	v.Dims = dims
	v.Step = st
	v.Offset = make([]int, rank)
	v.OffsetStep = make([]int, rank)
	off := 1
	for i := rank - 1; i >= 0; i-- {
		v.Offset[i] = off
		off = off * od[i]
	}
	start := 0
	for i := 0; i < rank; i++ {
		v.OffsetStep[i] = v.Offset[i] * st[i]
		start += o[i] * v.Offset[i]
	}
	v.Start = start
	return v, o
}

func c01sliceStep_ELEMTYPE(rank int, withStep bool) {
	impl := make([]ELEMTYPE, 1)
	p, o := c01view_ELEMTYPE("p", rank, impl)
	loc := c01ints_ELEMTYPE("loc", rank)
	dims := c01ints_ELEMTYPE("dims", rank)
	var step []int
	if withStep {
		step = c01ints_ELEMTYPE("step", rank)
	}
	c := p.Slice(loc, dims, step).(*ndELEMTYPE)
	i := c01ints_ELEMTYPE("i", rank)
	// element i of the slice is element loc + i*step of the parent
	pi := make([]int, rank)
	for k := 0; k < rank; k++ {
		s := 1
		if withStep {
			s = step[k]
		}
		pi[k] = loc[k] + i[k]*s
	}
	vsym.Reach("slice")
	vsym.Assert(c.Index(i) == p.Index(pi), "slice-spec")
	vsym.Assert(vsym.SameStart(c.Impl, p.Impl) && len(c.Impl) == len(p.Impl), "shares-storage")
	// the child is again a member of the family (so the step applies to chains of any depth)
	ok := len(c.Dims) == rank && len(c.Step) == rank && len(c.Offset) == rank && len(c.OffsetStep) == rank && len(c.OriginalDims) == rank
	vsym.Assert(ok, "inv-ranks")
	if ok {
		co := 0
		for k := 0; k < rank; k++ {
			s := 1
			if withStep {
				s = step[k]
			}
			vsym.Assert(c.OriginalDims[k] == p.OriginalDims[k], "inv-originaldims")
			vsym.Assert(c.Dims[k] == dims[k], "inv-dims")
			vsym.Assert(c.Offset[k] == p.Offset[k], "inv-offset-is-root-offset")
			vsym.Assert(c.Step[k] == p.Step[k]*s, "inv-step-accumulates")
			vsym.Assert(c.OffsetStep[k] == c.Offset[k]*c.Step[k], "inv-offsetstep")
			co += (o[k] + loc[k]*p.Step[k]) * p.Offset[k]
		}
		vsym.Assert(c.Start == co, "inv-start")
	}
	// the caller's vectors are not modified
	_ = o
}

// H_C01_slice_step1_ELEMTYPE: inductive step of slicing, rank 1, arbitrary (unbounded, wrapping
// 64-bit) root extents, origins, accumulated steps, loc/dims/step and element index.
//vsym:prop=C01 tier=quick ints=bv floats=real
func H_C01_slice_step1_ELEMTYPE() { c01sliceStep_ELEMTYPE(1, true) }

// H_C01_slice_step2_ELEMTYPE: same for rank 2.
//vsym:prop=C01 tier=quick ints=bv floats=real
func H_C01_slice_step2_ELEMTYPE() { c01sliceStep_ELEMTYPE(2, true) }

// H_C01_slice_step3_ELEMTYPE: same for rank 3.
//vsym:prop=C01 tier=quick ints=bv floats=real
func H_C01_slice_step3_ELEMTYPE() { c01sliceStep_ELEMTYPE(3, true) }

// H_C01_slice_nilstep3_ELEMTYPE: rank 3 with step == nil.
//vsym:prop=C01 tier=quick ints=bv floats=real
func H_C01_slice_nilstep3_ELEMTYPE() { c01sliceStep_ELEMTYPE(3, false) }
