package data

//vsym:foreach ELEMTYPE data/arrays_go.go

import (
	"github.com/flowmatters/openwater-core/zzverif/vsym"
)

// c02view_ELEMTYPE: root with concrete-enumerated extents <= B, one in-bounds stepped slice
// (loc, step symbolic; view extents enumerated).  Returns root, view, view dims and the
// affine map to storage cells.
func c02view_ELEMTYPE(tag string, rank int) (*ndELEMTYPE, NDELEMTITLE, []int, []int, []int, []int) {
	r, n, off := c01root_ELEMTYPE(rank)
	loc, dims, step := c01slice_ELEMTYPE(tag, n)
	return r, r.Slice(loc, dims, step), dims, loc, step, off
}

// row-major position k -> multi-index (concrete dims)
func c02unrank_ELEMTYPE(k int, dims []int) []int {
	idx := make([]int, len(dims))
	for a := len(dims) - 1; a >= 0; a-- {
		idx[a] = k % dims[a]
		k = k / dims[a]
	}
	return idx
}

func c02size_ELEMTYPE(dims []int) int {
	p := 1
	for _, d := range dims {
		p *= d
	}
	return p
}

// adjacency definition of contiguity: successive row-major elements occupy successive cells
func c02adjacent_ELEMTYPE(dims, org, stp, off []int) bool {
	size := c02size_ELEMTYPE(dims)
	adj := true
	for k := 0; k+1 < size; k++ {
		a := c01cell_ELEMTYPE(c02unrank_ELEMTYPE(k, dims), org, stp, off)
		b := c01cell_ELEMTYPE(c02unrank_ELEMTYPE(k+1, dims), org, stp, off)
		adj = vsym.And(adj, b == a+1)
	}
	return adj
}

func c02unroll_ELEMTYPE(rank int) {
	r, v, dims, org, stp, off := c02view_ELEMTYPE("v", rank)
	size := c02size_ELEMTYPE(dims)
	adj := c02adjacent_ELEMTYPE(dims, org, stp, off)
	vsym.Reach("unroll")
	contig := v.Contiguous()
	vsym.Assert(contig == adj, "contiguous-iff-adjacent-in-storage")
	u := v.Unroll()
	vsym.Assert(len(u) == size, "unroll-length-is-element-count")
	k := vsym.Int("k")
	vsym.Assume(k >= 0 && k < size)
	kidx := c02unrank_ELEMTYPE(k, dims)
	vsym.Assert(u[k] == v.Get(kidx), "unroll-is-rowmajor-gather")
	vsym.Assert(u[k] == r.Impl[c01cell_ELEMTYPE(kidx, org, stp, off)], "unroll-element-is-storage-cell")
	// aliasing: contiguous views are not copied, non-contiguous ones are
	first := c01cell_ELEMTYPE(make([]int, rank), org, stp, off)
	if contig {
		vsym.Assert(vsym.OffsetIn(u, r.Impl) == first, "contiguous-unroll-aliases-storage")
	} else {
		vsym.Assert(!vsym.SameBacking(u, r.Impl), "noncontiguous-unroll-is-a-copy")
	}
	// Maximum / Minimum bound every element and are elements
	mx, mn := v.Maximum(), v.Minimum()
	vsym.Assert(mx >= u[k] && mn <= u[k], "max-min-bound-every-element")
	isMax, isMin := false, false
	for q := 0; q < size; q++ {
		isMax = vsym.Or(isMax, u[q] == mx)
		isMin = vsym.Or(isMin, u[q] == mn)
	}
	vsym.Assert(vsym.And(isMax, isMin), "max-min-are-elements")
}

// H_C02_unroll_r1_ELEMTYPE: Contiguous() == adjacency, Unroll == row-major gather (aliasing iff
// contiguous), Maximum/Minimum; rank 1, extents <= B, symbolic loc/step <= B, symbolic values.
//vsym:prop=C02 tier=quick ints=int
func H_C02_unroll_r1_ELEMTYPE() { c02unroll_ELEMTYPE(1) }

// H_C02_unroll_r2_ELEMTYPE: same, rank 2.
//vsym:prop=C02 tier=quick ints=int
func H_C02_unroll_r2_ELEMTYPE() { c02unroll_ELEMTYPE(2) }

// H_C02_unroll_r3_ELEMTYPE: same, rank 3.
//vsym:prop=C02 tier=quick ints=int maxruns=20000 quicktypes=float64
func H_C02_unroll_r3_ELEMTYPE() { c02unroll_ELEMTYPE(3) }

func c02reshape_ELEMTYPE(rank int, newRank int, fast bool) {
	r, v, dims, org, stp, off := c02view_ELEMTYPE("v", rank)
	size := c02size_ELEMTYPE(dims)
	ns := c01ints_ELEMTYPE("ns", newRank)
	for a := 0; a < newRank; a++ {
		vsym.Assume(ns[a] >= 1 && ns[a] <= size+1)
		ns[a] = vsym.Concrete(ns[a])
	}
	nsize := c02size_ELEMTYPE(ns)
	contig := v.Contiguous()
	vsym.Reach("reshape")
	var res NDELEMTITLE
	var err error
	if fast {
		res, err = v.ReshapeFast(ns)
		vsym.Assert((err != nil) == (!contig || nsize != size), "reshapefast-fails-iff-noncontiguous-or-size-mismatch")
	} else {
		res, err = v.Reshape(ns)
		vsym.Assert((err != nil) == (nsize != size), "reshape-fails-iff-element-counts-differ")
	}
	if err != nil {
		return
	}
	vsym.Assert(res != nil, "reshape-returns-array")
	if res == nil {
		return
	}
	sh := res.Shape()
	vsym.Assert(len(sh) == newRank, "reshape-rank")
	for a := 0; a < newRank && a < len(sh); a++ {
		vsym.Assert(sh[a] == ns[a], "reshape-shape")
	}
	k := vsym.Int("k")
	vsym.Assume(k >= 0 && k < size)
	kold := c02unrank_ELEMTYPE(k, dims)
	knew := c02unrank_ELEMTYPE(k, ns)
	vsym.Assert(res.Get(knew) == v.Get(kold), "reshape-preserves-rowmajor-order")
	vsym.Assert(res.Contiguous(), "reshape-result-is-contiguous")
	// aliasing: writes through the reshaped array reach the original iff it was contiguous
	x := vsym.ELEMTITLE("x")
	cell := c01cell_ELEMTYPE(kold, org, stp, off)
	before := r.Impl[cell]
	res.Set(knew, x)
	if contig {
		vsym.Assert(r.Impl[cell] == x, "reshape-of-contiguous-view-aliases-storage")
	} else {
		vsym.Assert(r.Impl[cell] == before, "reshape-of-noncontiguous-view-is-a-copy")
	}
}

// H_C02_reshape_r2to1_ELEMTYPE: Reshape of rank-2 views (extents <= B) to any rank-1 shape with extent <= element count + 1.
//vsym:prop=C02 tier=quick ints=int
func H_C02_reshape_r2to1_ELEMTYPE() { c02reshape_ELEMTYPE(2, 1, false) }

// H_C02_reshape_r1to2_ELEMTYPE: Reshape of rank-1 views to rank-2 shapes.
//vsym:prop=C02 tier=quick ints=int
func H_C02_reshape_r1to2_ELEMTYPE() { c02reshape_ELEMTYPE(1, 2, false) }

// H_C02_reshapefast_r2to1_ELEMTYPE: ReshapeFast of rank-2 views to rank 1.
//vsym:prop=C02 tier=quick ints=int
func H_C02_reshapefast_r2to1_ELEMTYPE() { c02reshape_ELEMTYPE(2, 1, true) }

// H_C02_reshape_r3to2_ELEMTYPE: Reshape of rank-3 views to rank 2.
//vsym:prop=C02 tier=thorough ints=int maxruns=40000
func H_C02_reshape_r3to2_ELEMTYPE() { c02reshape_ELEMTYPE(3, 2, false) }
