package models

//vsym:formodels

import (
	"github.com/flowmatters/openwater-core/data"
	"github.com/flowmatters/openwater-core/zzverif/vsym"
)

// H_C06_split_MODELNAME: hot start through the model's public Run for every catalogued model
// (real kernel): 2 cells, 3 timesteps, all parameters, inputs and initial states symbolic; the
// uninterrupted run versus every split (1+2, 2+1, 1+1+1) in which the state array returned by one
// call is passed unchanged to the next: outputs at every timestep and the final states agree.
// Parameters are taken inside their documented range, or >= 0 where none is documented; inputs
// >= 0 (physical quantities; several kernels reinterpret negative values).  StorageRouting is
// left to its kernel-level harness (its hot start agrees within the solver tolerance only, as the
// property says).
//
//vsym:prop=C06 tier=quick ints=int floats=real timeout=20 wall=240 cut=3 unwind=80
func H_C06_split_MODELNAME() {
	if "MODELNAME" == "InstreamFineSediment" {
		// the re-interpretation of a negative channel store at the start of every call makes the
		// comparison a non-linear proof (store after a step >= 0); one cell, one split point
		c06split_MODELNAME(1, 2, false)
		return
	}
	c06split_MODELNAME(2, 3, false)
}

// H_C06_splitcv_MODELNAME: InstreamDissolvedNutrientDecay only: the same comparison with a
// reach volume that does not change over the period.  (With a varying volume the split run is
// known to differ, finding C06-dissolved-nutrient-previous-volume-not-a-state; this variant keeps
// every other hot-start obligation of that model enforced.)
//
//vsym:prop=C06 tier=quick ints=int floats=real timeout=60 wall=240 cut=3 unwind=80
func H_C06_splitcv_MODELNAME() {
	if "MODELNAME" != "InstreamDissolvedNutrientDecay" {
		vsym.Reach("not-applicable-to-this-model")
		return
	}
	c06split_MODELNAME(2, 3, true)
}

// H_C06_concrete_MODELNAME: Storage only (skipped above as a heavy kernel): the same comparison
// with the REAL kernel on concrete parameter, input and state values (a filling reservoir).
//vsym:prop=C06 tier=quick ints=int floats=real timeout=60 wall=300 unwind=400
func H_C06_concrete_MODELNAME() {
	if "MODELNAME" != "Storage" {
		vsym.Reach("not-applicable-to-this-model")
		return
	}
	c06splitx_MODELNAME(2, 3, false, true)
}

func c06split_MODELNAME(N, T int, constVolume bool) { c06splitx_MODELNAME(N, T, constVolume, false) }

func c06splitx_MODELNAME(N, T int, constVolume bool, concrete bool) {
	name := "MODELNAME"
	if name == "StorageRouting" {
		vsym.Note("StorageRouting: hot start is decided at kernel level (H_C06_storage_routing)")
		vsym.Reach("left-to-kernel-level-harness")
		return
	}
	if !concrete && wrHeavyNoSummary(name) {
		vsym.Note("kernel of " + name + " is outside the reach of the executor within the budget: this wrapper is not exercised with its own kernel")
		vsym.Reach("skipped-heavy-kernel")
		return
	}
	vsym.Summarise("NoKernelImplicit")
	vsym.Summarise("FindRoot")
	w := wrNew(name, 3)
	nI, nO := len(w.desc.Inputs), len(w.desc.Outputs)
	if len(w.desc.States) == 0 {
		// the property is about stateful models; a model without states has nothing to carry
		// (DateGenerator restarts from its start-date parameters in every call by design)
		vsym.Note(name + " has no states: not a stateful model")
		vsym.Reach("stateless-model")
		return
	}
	params := w.params(N, []int{2, 3})
	wrConstrain(name, w, params, N)
	if !concrete {
		wrDocumentedRanges(w, params, N)
		wrNonNegativeUndocumented(w, params, N)
	}
	if len(w.desc.Dimensions) > 0 {
		w.m.InitialiseDimensions(w.m.FindDimensions(params))
	}
	w.m.ApplyParameters(wrCopy2(params))
	inputs := data.NewArray3DFloat64(N, nI, T)
	for b := 0; b < N; b++ {
		for i := 0; i < nI; i++ {
			for t := 0; t < T; t++ {
				v := 0.5 + 0.25*float64(b) + 0.125*float64(t)
				if !concrete {
					v = vsym.Float64("input")
					vsym.Assume(v >= 0 && v <= 1000000)
				}
				if constVolume && w.desc.Inputs[i] == "reachVolume" && t > 0 {
					v = inputs.Get3(b, i, 0)
				}
				inputs.Set3(b, i, t, v)
			}
		}
	}
	states0 := wrStates(name, w, params, N, N)
	nS := states0.Len(1)
	structural := name == "GR4J"
	for c := 0; c < N; c++ {
		for s := 0; s < nS; s++ {
			if structural && (s == 2 || s == 3 || s >= 4+int(states0.Get2(c, 2))+int(states0.Get2(c, 3))) {
				continue
			}
			if concrete {
				states0.Set2(c, s, 0.125)
				if s == 0 {
					states0.Set2(c, s, 500000)
				}
			} else {
				states0.Set2(c, s, vsym.Float64("state"))
			}
		}
	}
	if !concrete {
		wrConstrainData(name, inputs, states0)
	}
	// segment [from, to) of the input series, continuing from st (modified in place by Run)
	seg := func(st data.ND2Float64, from, to int) data.ND3Float64 {
		in := data.NewArray3DFloat64(N, nI, to-from)
		for b := 0; b < N; b++ {
			for i := 0; i < nI; i++ {
				for t := from; t < to; t++ {
					in.Set3(b, i, t-from, inputs.Get3(b, i, t))
				}
			}
		}
		out := data.NewArray3DFloat64(N, nO, to-from)
		w.m.Run(in, st, out)
		return out
	}
	sA := wrCopy2(states0)
	oA := seg(sA, 0, T)
	vsym.Reach("one-shot")
	allCuts := [][]int{{1}, {2}, {1, 2}}
	if T == 2 {
		allCuts = [][]int{{1}}
	}
	for _, cuts := range allCuts {
		st := wrCopy2(states0)
		from := 0
		for k := 0; k <= len(cuts); k++ {
			to := T
			if k < len(cuts) {
				to = cuts[k]
			}
			o := seg(st, from, to)
			for c := 0; c < N; c++ {
				for j := 0; j < nO; j++ {
					for t := from; t < to; t++ {
						vsym.AssertAgree(o.Get3(c, j, t-from), oA.Get3(c, j, t), 1e-9, 1e-9, "split-run-outputs-equal-uninterrupted-run")
					}
				}
			}
			from = to
		}
		for c := 0; c < N; c++ {
			for s := 0; s < nS; s++ {
				vsym.AssertAgree(st.Get2(c, s), sA.Get2(c, s), 1e-9, 1e-9, "split-run-final-states-equal-uninterrupted-run")
			}
		}
	}
}
