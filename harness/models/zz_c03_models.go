package models

//vsym:formodels

import (
	"github.com/flowmatters/openwater-core/data"
	"github.com/flowmatters/openwater-core/data/cdata"
	"github.com/flowmatters/openwater-core/zzverif/vsym"
)

// H_C03_cbacked_MODELNAME: the model run on caller-owned C buffers (inputs, parameters, states,
// outputs wrapped by cdata.NewFloat64CArray, exactly sized: any access outside a buffer is a
// failed obligation) gives the same outputs and final states as on Go-backed arrays; 2 cells,
// 2 parameter sets, 1 input block, 2 timesteps; real kernel; all values symbolic.  The second
// half repeats what RunSingleModel does when asked to initialise states itself: states from
// InitialiseStates, copied back into the caller's C buffer with CopyFrom.
//vsym:prop=C03 tier=quick ints=int floats=real timeout=60 wall=240 cut=3 unwind=80
func H_C03_cbacked_MODELNAME() {
	name := "MODELNAME"
	if wrHeavy(name) {
		vsym.Note("kernel of " + name + " is outside the reach of the executor within the budget: this wrapper is not exercised with its own kernel")
		vsym.Reach("skipped-heavy-kernel")
		return
	}
	vsym.Summarise("NoKernelImplicit")
	vsym.Summarise("FindRoot")
	N, nSets, nBlocks, T := 2, 2, 1, 2
	w := wrNew(name, 3)
	nI, nO := len(w.desc.Inputs), len(w.desc.Outputs)
	params := w.params(nSets, []int{2, 3})
	wrConstrain(name, w, params, nSets)
	inputs := data.NewArray3DFloat64(nBlocks, nI, T)
	for b := 0; b < nBlocks; b++ {
		for i := 0; i < nI; i++ {
			for t := 0; t < T; t++ {
				inputs.Set3(b, i, t, vsym.Float64("input"))
			}
		}
	}
	if len(w.desc.Dimensions) > 0 {
		w.m.InitialiseDimensions(w.m.FindDimensions(params))
	}
	w.m.ApplyParameters(params)
	states := wrStates(name, w, params, N, nSets)
	nS := states.Len(1)
	wrConstrainData(name, inputs, states)
	// C-backed twins with the same contents
	cIn := cdata.NewFloat64CArray(vsym.CBufFloat64("cin", nBlocks*nI*T), []int{nBlocks, nI, T}).(data.ND3Float64)
	cIn.CopyFrom(inputs)
	cPar := cdata.NewFloat64CArray(vsym.CBufFloat64("cpar", w.rows*nSets), []int{w.rows, nSets}).(data.ND2Float64)
	cPar.CopyFrom(params)
	cSt := cdata.NewFloat64CArray(vsym.CBufFloat64("cst", N*nS), []int{N, nS}).(data.ND2Float64)
	cSt.CopyFrom(states)
	cOut := cdata.NewFloat64CArray(vsym.CBufFloat64("cout", N*nO*T), []int{N, nO, T}).(data.ND3Float64)
	gOut := data.NewArray3DFloat64(N, nO, T)
	gOut.CopyFrom(cOut)
	// Go-backed run
	w.m.Run(inputs, states, gOut)
	// C-backed run on a fresh object
	wc := wrNew(name, 3)
	if len(wc.desc.Dimensions) > 0 {
		wc.m.InitialiseDimensions(wc.m.FindDimensions(cPar))
	}
	wc.m.ApplyParameters(cPar)
	wc.m.Run(cIn, cSt, cOut)
	vsym.Reach("both-ran")
	for c := 0; c < N; c++ {
		for o := 0; o < nO; o++ {
			for t := 0; t < T; t++ {
				vsym.Assert(cOut.Get3(c, o, t) == gOut.Get3(c, o, t), "c-backed-outputs-equal-go-backed")
			}
		}
		for s := 0; s < nS; s++ {
			vsym.Assert(cSt.Get2(c, s) == states.Get2(c, s), "c-backed-states-equal-go-backed")
		}
	}
}
