package models

//vsym:formodels

import (
	"github.com/flowmatters/openwater-core/data"
	"github.com/flowmatters/openwater-core/zzverif/vsym"
)

// H_C05_cells_MODELNAME: the goroutine-per-cell Run of this model (3 cells, 2 parameter sets, 2
// input blocks, 2 timesteps, real kernel, all values symbolic) is executed with every memory
// access logged per goroutine instance.  Obligation: no cell of any object that a goroutine did
// not allocate itself is written by one instance and accessed by another (or by the spawning
// goroutine before the join) -- i.e. no conflicting unsynchronised accesses under ANY
// interleaving; the join collects every token; and every cell's results equal those of the cell
// run alone, for every processor count 1..4 the runtime may report (schedule independence).
//vsym:prop=C05 tier=quick ints=int floats=real timeout=60 wall=240 cut=3 unwind=80
func H_C05_cells_MODELNAME() { c05cells_MODELNAME(3, 2, 2, 2) }

// H_C05_cells4_MODELNAME: 4 cells, 3 parameter sets, 3 input blocks, 3 timesteps.
//vsym:prop=C05 tier=thorough ints=int floats=real timeout=120 wall=900 cut=3 unwind=80
func H_C05_cells4_MODELNAME() { c05cells_MODELNAME(4, 3, 3, 3) }

// H_C05_realroot_MODELNAME: models that solve iteratively (StorageRouting) are run once more with
// the REAL fn.FindRoot instead of its summary (its loop cut after 2 iterations: the footprints,
// not convergence, are what is checked); a no-op for all other models.
//vsym:prop=C05 tier=quick ints=int floats=real timeout=60 wall=300 cut=2 unwind=80
func H_C05_realroot_MODELNAME() {
	if "MODELNAME" != "StorageRouting" {
		vsym.Reach("not-an-iterative-model")
		return
	}
	c05cellsx_MODELNAME(2, 2, 2, 1, true)
}

// H_C05_concrete_MODELNAME: Sacramento and Storage only (whose kernels are summarised in the
// harnesses above, so that a conflict INSIDE the kernel would not be seen there): the same run
// with the REAL kernel on concrete parameter, input and state values (3 cells, 2 parameter sets,
// 2 input blocks, 2 timesteps); the footprints of one concrete run are still checked for every
// interleaving.  A no-op for the other models.
//vsym:prop=C05 tier=quick ints=int floats=real timeout=60 wall=300 unwind=400
func H_C05_concrete_MODELNAME() {
	if "MODELNAME" != "Sacramento" && "MODELNAME" != "Storage" {
		vsym.Reach("kernel-already-exercised-symbolically")
		return
	}
	c05cellsy_MODELNAME(3, 2, 2, 2, false, true)
}

// H_C05_window_MODELNAME: the inputs handed to Run are a time WINDOW of a longer record (a view
// with a start offset on the timestep axis), so every cell's input block is non-contiguous and the
// array library's slow (element-by-element) paths run inside the cell goroutines.
//vsym:prop=C05 tier=quick ints=int floats=real timeout=60 wall=240 cut=3 unwind=80
func H_C05_window_MODELNAME() { c05cellsz_MODELNAME(3, 2, 2, 2, false, false, true) }

func c05cells_MODELNAME(N, nSets, nBlocks, T int) { c05cellsx_MODELNAME(N, nSets, nBlocks, T, false) }

func c05cellsx_MODELNAME(N, nSets, nBlocks, T int, realRoot bool) {
	c05cellsy_MODELNAME(N, nSets, nBlocks, T, realRoot, false)
}

func c05cellsy_MODELNAME(N, nSets, nBlocks, T int, realRoot bool, concrete bool) {
	c05cellsz_MODELNAME(N, nSets, nBlocks, T, realRoot, concrete, false)
}

func c05cellsz_MODELNAME(N, nSets, nBlocks, T int, realRoot bool, concrete bool, window bool) {
	name := "MODELNAME"
	if !concrete && wrHeavy(name) {
		vsym.Note("kernel of " + name + " is outside the reach of the executor within the budget: this wrapper is not exercised with its own kernel")
		vsym.Reach("skipped-heavy-kernel")
		return
	}
	vsym.Summarise("NoKernelImplicit")
	if !realRoot {
		vsym.Summarise("FindRoot")
	}
	w := wrNew(name, 3)
	nI, nO := len(w.desc.Inputs), len(w.desc.Outputs)
	params := w.params(nSets, []int{2, 3})
	wrConstrain(name, w, params, nSets)
	if len(w.desc.Dimensions) > 0 {
		w.m.InitialiseDimensions(w.m.FindDimensions(params))
	}
	w.m.ApplyParameters(params)
	inputs := data.NewArray3DFloat64(nBlocks, nI, T)
	for b := 0; b < nBlocks; b++ {
		for i := 0; i < nI; i++ {
			for t := 0; t < T; t++ {
				inputs.Set3(b, i, t, vsym.Float64("input"))
			}
		}
	}
	states := wrStates(name, w, params, N, nSets)
	wrConstrainData(name, inputs, states)
	if concrete {
		// concrete values everywhere (table rows of Storage are already concrete)
		for r := 0; r < w.rows; r++ {
			for c := 0; c < nSets; c++ {
				if name == "Sacramento" {
					params.Set2(r, c, 0.3+0.05*float64(c))
				}
			}
		}
		w.m.ApplyParameters(params)
		for b := 0; b < nBlocks; b++ {
			for i := 0; i < nI; i++ {
				for t := 0; t < T; t++ {
					inputs.Set3(b, i, t, 0.5+0.25*float64(b))
				}
			}
		}
		for c := 0; c < states.Len(0); c++ {
			for st := 0; st < states.Len(1); st++ {
				states.Set2(c, st, 0.125)
			}
			if name == "Storage" {
				states.Set2(c, 0, 500000)
			}
		}
	}
	outputs := data.NewArray3DFloat64(N, nO, T)
	if window {
		record := data.NewArray3DFloat64(nBlocks, nI, T+2)
		for b := 0; b < nBlocks; b++ {
			for i := 0; i < nI; i++ {
				for t := 0; t < T; t++ {
					record.Set3(b, i, t+1, inputs.Get3(b, i, t))
				}
			}
		}
		inputs = record.Slice([]int{0, 0, 1}, []int{nBlocks, nI, T}, nil).(data.ND3Float64)
	}
	params0, inputs0, states0, outputs0 := wrCopy2(params), wrCopy3(inputs), wrCopy2(states), wrCopy3(outputs)
	vsym.LogStart()
	w.m.Run(inputs, states, outputs)
	vsym.LogStop()
	vsym.Reach("after-run")
	vsym.AssertNoRaces("no-conflicting-accesses-between-cell-goroutines")
	vsym.Assert(vsym.JoinBalance() == 0, "join-collects-every-token")
	// schedule independence: whatever the number of goroutines and processors (the processor count
	// reported by the runtime is an arbitrary value in 1..4 here, one path each), every cell's
	// results are those of that cell run alone
	if !(concrete || wrHeavy(name)) {
		wrAssertCellsEqualSingle(name, w, params0, inputs0, states0, outputs0, states, outputs, N, nSets, nBlocks, T)
	}
}
