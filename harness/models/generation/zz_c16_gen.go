package generation

import (
	"github.com/flowmatters/openwater-core/data"
	"github.com/flowmatters/openwater-core/zzverif/vsym"
)

func gnSeries(tag string, T int) data.ND1Float64 {
	a := data.NewArray1DFloat64(T)
	for i := 0; i < T; i++ {
		a.Set1(i, vsym.Float64(tag))
	}
	return a
}
func gnOut(T int) data.ND1Float64 { return data.NewArray1DFloat64(T) }

const gnT = 2
const gnAbs = 1e-12
const gnRel = 1e-9

// H_C16_emc_dwc: quick = qf*emc*1e-3, slow = sf*dwc*1e-3, total = quick + slow; zero flow => zero
// load; non-negative drivers => non-negative loads.  (mg/L -> kg/m3 = 1e-3.)
//
//vsym:prop=C16 tier=quick ints=int floats=real
func H_C16_emc_dwc() {
	qf, sf := gnSeries("qf", gnT), gnSeries("sf", gnT)
	emc, dwc := vsym.Float64("emc"), vsym.Float64("dwc")
	ql, sl, tl := gnOut(gnT), gnOut(gnT), gnOut(gnT)
	emcDWC(qf, sf, emc, dwc, ql, sl, tl)
	vsym.Reach("run")
	for t := 0; t < gnT; t++ {
		vsym.AssertNear(ql.Get1(t), qf.Get1(t)*emc*0.001, gnAbs, gnRel, "quick-load-linear-with-unit-factor")
		vsym.AssertNear(sl.Get1(t), sf.Get1(t)*dwc*0.001, gnAbs, gnRel, "slow-load-linear-with-unit-factor")
		vsym.AssertNear(tl.Get1(t), ql.Get1(t)+sl.Get1(t), gnAbs, gnRel, "total-is-quick-plus-slow")
		if qf.Get1(t) == 0 {
			vsym.Assert(ql.Get1(t) == 0, "zero-flow-zero-load")
		}
		if qf.Get1(t) >= 0 && sf.Get1(t) >= 0 && emc >= 0 && dwc >= 0 {
			vsym.Assert(ql.Get1(t) >= 0 && sl.Get1(t) >= 0 && tl.Get1(t) >= 0, "nonnegative-drivers-nonnegative-loads")
		}
	}
}

// H_C16_fixed_concentration: load = flow*conc*1e-3.
//
//vsym:prop=C16 tier=quick ints=int floats=real
func H_C16_fixed_concentration() {
	f := gnSeries("flow", gnT)
	c := vsym.Float64("conc")
	l := gnOut(gnT)
	fixedConcentration(f, c, l)
	vsym.Reach("run")
	for t := 0; t < gnT; t++ {
		vsym.AssertNear(l.Get1(t), f.Get1(t)*c*0.001, gnAbs, gnRel, "load-linear-with-unit-factor")
	}
}

// H_C16_pass_load_if_flow: load passes (scaled) iff flow exceeds the zero threshold.
//
//vsym:prop=C16 tier=quick ints=int floats=real
func H_C16_pass_load_if_flow() {
	f, l := gnSeries("flow", gnT), gnSeries("load", gnT)
	s := vsym.Float64("scale")
	o := gnOut(gnT)
	passLoadIfFlow(f, l, s, o)
	vsym.Reach("run")
	for t := 0; t < gnT; t++ {
		if f.Get1(t) <= 0 {
			vsym.Assert(o.Get1(t) == 0, "no-flow-no-load")
		}
		if f.Get1(t) > EFFECTIVELY_ZERO {
			vsym.AssertNear(o.Get1(t), l.Get1(t)*s, gnAbs, gnRel, "flow-passes-scaled-load")
		}
	}
}

// H_C16_dissolved_nutrients: per-second loads = flow * conc * 1e-3 (L/day and mg->kg factors cancel), total = quick + slow.
//
//vsym:prop=C16 tier=quick ints=int floats=real
func H_C16_dissolved_nutrients() {
	qf, sf := gnSeries("qf", gnT), gnSeries("sf", gnT)
	emc, dwc := vsym.Float64("emc"), vsym.Float64("dwc")
	ql, sl, tl := gnOut(gnT), gnOut(gnT), gnOut(gnT)
	dissolvedNutrients(qf, sf, emc, dwc, ql, sl, tl)
	vsym.Reach("run")
	for t := 0; t < gnT; t++ {
		vsym.AssertNear(ql.Get1(t), qf.Get1(t)*emc*0.001, gnAbs, gnRel, "quick-load-linear-with-unit-factor")
		vsym.AssertNear(sl.Get1(t), sf.Get1(t)*dwc*0.001, gnAbs, gnRel, "slow-load-linear-with-unit-factor")
		vsym.AssertNear(tl.Get1(t), ql.Get1(t)+sl.Get1(t), gnAbs, gnRel, "total-is-quick-plus-slow")
	}
}

// H_C16_particulate_nutrients: total = quick + slow, quick = hillslope + gully, slow = sf*dwc*1e-3;
// zero sediment supply => zero quick load.
//
//vsym:prop=C16 tier=quick ints=int floats=real
func H_C16_particulate_nutrients() {
	T := 2
	fs, cs, fg, cg, sf := gnSeries("fineSheet", T), gnSeries("coarseSheet", T), gnSeries("fineGully", T), gnSeries("coarseGully", T), gnSeries("sf", T)
	area, nss, hdr, ner, nsub, nerg, gdr, dwc, creams := vsym.Float64("area"), vsym.Float64("nutSurf"), vsym.Float64("hdr"), vsym.Float64("ner"), vsym.Float64("nutSub"), vsym.Float64("nerg"), vsym.Float64("gdr"), vsym.Float64("dwc"), vsym.Float64("creams")
	q, s, tot, hill, gul := gnOut(T), gnOut(T), gnOut(T), gnOut(T), gnOut(T)
	particulateNutrients(fs, cs, fg, cg, sf, area, nss, hdr, ner, nsub, nerg, gdr, dwc, creams, q, s, tot, hill, gul)
	vsym.Reach("run")
	// every timestep on its own (nothing may carry over from the step before)
	for t := 0; t < T; t++ {
		vsym.AssertNear(tot.Get1(t), q.Get1(t)+s.Get1(t), gnAbs, gnRel, "total-is-quick-plus-slow")
		vsym.AssertNear(q.Get1(t), hill.Get1(t)+gul.Get1(t), gnAbs, gnRel, "quick-is-hillslope-plus-gully")
		vsym.AssertNear(s.Get1(t), sf.Get1(t)*dwc*0.001, gnAbs, gnRel, "slow-load-linear-with-unit-factor")
		vsym.AssertNear(hill.Get1(t), (fs.Get1(t)+cs.Get1(t))*nss*ner*(hdr*0.01), gnAbs, gnRel, "hillslope-delivered-is-generated-times-ratio")
		if fs.Get1(t)+cs.Get1(t) == 0 && fg.Get1(t)+cg.Get1(t) == 0 {
			vsym.Assert(q.Get1(t) == 0, "zero-supply-zero-quick-load")
		}
	}
}

// H_C16_bank_erosion: fine + coarse = total with fine = total*soilPercentFine/100; zero flow or
// volume => zero; non-negative drivers => non-negative loads (pow by contract).
//
//vsym:prop=C16 tier=quick ints=int floats=real
func H_C16_bank_erosion() {
	T := 2
	dv, tv := gnSeries("downstreamFlow", T), gnSeries("totalVolume", T)
	p := make([]float64, 14)
	names := []string{"ripVeg", "maxRipEff", "soilErod", "coeff", "slope", "bankFull", "mgt", "density", "height", "length", "power", "ltFlow", "pctFine", "dur"}
	for i := range p {
		p[i] = vsym.Float64(names[i])
	}
	vsym.Assume(p[13] > 0)
	fine, coarse := gnOut(T), gnOut(T)
	bankErosion(dv, tv, p[0], p[1], p[2], p[3], p[4], p[5], p[6], p[7], p[8], p[9], p[10], p[11], p[12], p[13], fine, coarse)
	vsym.Reach("run")
	allNonNeg := true
	for i := range p {
		allNonNeg = vsym.And(allNonNeg, p[i] >= 0)
	}
	// every timestep on its own (a wet step followed by a dry one included)
	for t := 0; t < T; t++ {
		total := fine.Get1(t) + coarse.Get1(t)
		vsym.AssertNear(fine.Get1(t), total*(p[12]*0.01), gnAbs, gnRel, "fine-is-total-times-fine-fraction")
		if tv.Get1(t) <= 0 || dv.Get1(t) <= 0 {
			vsym.Assert(fine.Get1(t) == 0 && coarse.Get1(t) == 0, "zero-flow-or-volume-zero-erosion")
		}
		if allNonNeg && p[0] <= 100 && p[1] <= 100 && p[12] <= 100 {
			vsym.Assert(fine.Get1(t) >= 0 && coarse.Get1(t) >= 0, "nonnegative-drivers-nonnegative-loads")
		}
	}
}

func gnGully(derm bool) {
	T := 2
	qf, yr, ar, al := gnSeries("qf", T), gnSeries("year", T), gnSeries("annualRunoff", T), gnSeries("annualLoad", T)
	names := []string{"yearDist", "endYear", "area", "activity", "supply", "pctFine", "mgt", "ltRunoff", "power", "sdrFine", "sdrCoarse", "dt"}
	p := make([]float64, len(names))
	for i := range p {
		p[i] = vsym.Float64(names[i])
	}
	vsym.Assume(p[11] > 0 && p[2] > 0)
	fl, cl, gf, gc := gnOut(T), gnOut(T), gnOut(T), gnOut(T)
	if derm {
		sednetGullyDerm(qf, yr, ar, al, p[0], p[1], p[2], p[3], p[4], p[5], p[6], p[7], p[8], p[9], p[10], p[11], fl, cl, gf, gc)
	} else {
		sednetGullyOrig(qf, yr, ar, al, p[0], p[1], p[2], p[3], p[4], p[5], p[6], p[7], p[8], p[9], p[10], p[11], fl, cl, gf, gc)
	}
	vsym.Reach("run")
	for t := 0; t < T; t++ {
		vsym.AssertNear(fl.Get1(t), gf.Get1(t)*(p[9]*0.01), gnAbs, gnRel, "delivered-fine-is-generated-times-sdr")
		vsym.AssertNear(cl.Get1(t), gc.Get1(t)*(p[10]*0.01), gnAbs, gnRel, "delivered-coarse-is-generated-times-sdr")
		if qf.Get1(t) == 0 {
			vsym.Assert(fl.Get1(t) == 0 && cl.Get1(t) == 0, "zero-runoff-zero-load")
		}
		// fine : coarse = pf : (1-pf) while the gully is active (activity factor 1)
		if yr.Get1(t) <= p[1] {
			pf := p[5] / 100
			vsym.AssertNear(gf.Get1(t)*(1-pf), gc.Get1(t)*pf, gnAbs, gnRel, "fine-coarse-split-by-fine-fraction")
		}
	}
}

// H_C16_gully_orig: DynamicSednetGully: delivered = generated*SDR/100, fine:coarse split, zero runoff => zero.
//
//vsym:prop=C16 tier=quick ints=int floats=real
func H_C16_gully_orig() { gnGully(false) }

// H_C16_gully_derm: DynamicSednetGullyAlt, same identities.
//
//vsym:prop=C16 tier=quick ints=int floats=real
func H_C16_gully_derm() { gnGully(true) }

// H_C16_usle: totals = quick + slow; delivered fine = generated * HSDR/100; no erosive rain or
// no quickflow => zero quick load; slow = sf*dwc*1e-3.
//
//vsym:prop=C16 tier=quick ints=int floats=real timeout=120
func H_C16_usle() {
	T := 2
	qf, sf, rain, klsc, klscF, cov, doy := gnSeries("qf", T), gnSeries("sf", T), gnSeries("rain", T), gnSeries("klsc", T), gnSeries("klscFine", T), gnSeries("cov", T), gnSeries("doy", T)
	names := []string{"s", "p", "rainThreshold", "alpha", "beta", "eta", "a1", "a2", "a3", "dwc", "avK", "avLS", "avFines", "area", "maxConc", "hsdrFine", "hsdrCoarse", "dt"}
	p := make([]float64, len(names))
	for i := range p {
		p[i] = vsym.Float64(names[i])
	}
	vsym.Assume(p[17] > 0)
	o := make([]data.ND1Float64, 8)
	for i := range o {
		o[i] = gnOut(T)
	}
	usleFine(qf, sf, rain, klsc, klscF, cov, doy, p[0], p[1], p[2], p[3], p[4], p[5], p[6], p[7], p[8], p[9], p[10], p[11], p[12], p[13], p[14], p[15], p[16], p[17],
		o[0], o[1], o[2], o[3], o[4], o[5], o[6], o[7])
	vsym.Reach("run")
	for t := 0; t < T; t++ {
		quickFine, slowFine, quickCoarse, slowCoarse, totFine, totCoarse, genFine, genCoarse := o[0].Get1(t), o[1].Get1(t), o[2].Get1(t), o[3].Get1(t), o[4].Get1(t), o[5].Get1(t), o[6].Get1(t), o[7].Get1(t)
		vsym.AssertNear(totFine, quickFine+slowFine, gnAbs, gnRel, "total-fine-is-quick-plus-slow")
		vsym.AssertNear(totCoarse, quickCoarse+slowCoarse, gnAbs, gnRel, "total-coarse-is-quick-plus-slow")
		vsym.AssertNear(slowFine, sf.Get1(t)*p[9]*0.001, gnAbs, gnRel, "slow-load-linear-with-unit-factor")
		vsym.AssertNear(quickFine, genFine*(p[15]*0.01), gnAbs, gnRel, "delivered-fine-is-generated-times-hsdr")
		vsym.AssertNear(quickCoarse, genCoarse*(p[16]*0.01), gnAbs, gnRel, "delivered-coarse-is-generated-times-hsdr")
		if rain.Get1(t) <= p[2] || qf.Get1(t) <= 0 {
			vsym.Assert(quickFine == 0 && quickCoarse == 0 && genFine == 0, "no-erosive-rain-or-no-quickflow-zero-quick-load")
		}
		// generated material is split by the model's fine fraction KLSC_fine : KLSC, with or without
		// the maximum-concentration cap (cross-multiplied to avoid a division)
		vsym.AssertNear(genFine*(klsc.Get1(t)-klscF.Get1(t)), genCoarse*klscF.Get1(t), gnAbs, gnRel, "generated-fine-coarse-split-by-fine-fraction")
	}
}
