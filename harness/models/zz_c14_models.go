package models

//vsym:formodels

import (
	"github.com/flowmatters/openwater-core/data"
	"github.com/flowmatters/openwater-core/sim"
	"github.com/flowmatters/openwater-core/zzverif/vsym"
)

// H_C14_pure_MODELNAME: 2 cells, 3 timesteps, all values symbolic, real kernel.
// (a) purity: the same object run again from equal states, a fresh object, and the same object
// after another model (Sum) has run all give identical outputs and final states; no package-level
// variable is written during Run.  (b) causality: for every k < T-1, changing the inputs after
// step k (fresh symbols) or truncating the series after step k leaves outputs up to k unchanged.
//
//vsym:prop=C14 tier=quick ints=int floats=real timeout=60 wall=240 cut=3 unwind=80
func H_C14_pure_MODELNAME() { c14pure_MODELNAME(2, 3, false) }

// H_C14_concrete_MODELNAME: Sacramento and Storage only (skipped above): the same obligations
// with the REAL kernel on concrete parameter, input and state values.  A no-op for the others.
//
//vsym:prop=C14 tier=quick ints=int floats=real timeout=60 wall=300 unwind=400
func H_C14_concrete_MODELNAME() {
	if "MODELNAME" != "Sacramento" && "MODELNAME" != "Storage" {
		vsym.Reach("kernel-already-exercised-symbolically")
		return
	}
	c14pure_MODELNAME(2, 3, true)
}

func c14pure_MODELNAME(N, T int, concrete bool) {
	name := "MODELNAME"
	if !concrete && wrHeavyNoSummary(name) {
		vsym.Note("kernel of " + name + " is outside the reach of the executor within the budget: this wrapper is not exercised with its own kernel")
		vsym.Reach("skipped-heavy-kernel")
		return
	}
	vsym.Summarise("NoKernelImplicit")
	vsym.Summarise("FindRoot")
	w := wrNew(name, 3)
	nI, nO := len(w.desc.Inputs), len(w.desc.Outputs)
	params := w.params(N, []int{2, 3})
	wrConstrain(name, w, params, N)
	cval := func(k int) float64 { return 0.3 + 0.05*float64(k%3) }
	if concrete && name == "Sacramento" {
		for r := 0; r < w.rows; r++ {
			for c := 0; c < N; c++ {
				params.Set2(r, c, cval(c))
			}
		}
	}
	setup := func(x *wrSetup) {
		if len(x.desc.Dimensions) > 0 {
			x.m.InitialiseDimensions(w.m.FindDimensions(params))
		}
		x.m.ApplyParameters(wrCopy2(params))
	}
	setup(w)
	inputs := data.NewArray3DFloat64(N, nI, T)
	for b := 0; b < N; b++ {
		for i := 0; i < nI; i++ {
			for t := 0; t < T; t++ {
				if concrete {
					inputs.Set3(b, i, t, 0.5+0.25*float64(b)+0.125*float64(t))
				} else {
					inputs.Set3(b, i, t, vsym.Float64("input"))
				}
			}
		}
	}
	states0 := wrStates(name, w, params, N, N)
	nS := states0.Len(1)
	structural := name == "GR4J"
	for c := 0; c < N; c++ {
		for s := 0; s < nS; s++ {
			if structural && (s == 2 || s == 3 || s >= 4+int(states0.Get2(c, 2))+int(states0.Get2(c, 3))) {
				continue
			}
			if concrete {
				states0.Set2(c, s, 0.125)
				if name == "Storage" && s == 0 {
					states0.Set2(c, s, 500000)
				}
			} else {
				states0.Set2(c, s, vsym.Float64("state"))
			}
		}
	}
	if !concrete {
		wrConstrainData(name, inputs, states0)
	}
	run := func(x *wrSetup, in data.ND3Float64, T2 int) (data.ND3Float64, data.ND2Float64) {
		st := wrCopy2(states0)
		out := data.NewArray3DFloat64(N, nO, T2)
		x.m.Run(in, st, out)
		return out, st
	}
	same := func(o1, o2 data.ND3Float64, s1, s2 data.ND2Float64, upto int, label string) {
		for c := 0; c < N; c++ {
			for o := 0; o < nO; o++ {
				for t := 0; t < upto; t++ {
					vsym.Assert(o1.Get3(c, o, t) == o2.Get3(c, o, t), label)
				}
			}
			if s1 != nil {
				for s := 0; s < nS; s++ {
					vsym.Assert(s1.Get2(c, s) == s2.Get2(c, s), label)
				}
			}
		}
	}
	vsym.LogStart()
	oA, sA := run(w, inputs, T)
	vsym.LogStop()
	vsym.Reach("first-run")
	vsym.Assert(vsym.GlobalWrites() == 0, "fact:no-package-level-variable-written-during-run")
	oB, sB := run(w, inputs, T)
	same(oA, oB, sA, sB, T, "second-run-on-same-object-identical")
	w2 := wrNew(name, 3)
	setup(w2)
	oC, sC := run(w2, inputs, T)
	same(oA, oC, sA, sC, T, "fresh-object-identical")
	// another model runs in between
	other := sim.Catalog["Sum"]()
	other.ApplyParameters(data.NewArray2DFloat64(0, 1))
	oi := data.NewArray3DFloat64(1, 2, 2)
	oi.Set3(0, 0, 0, vsym.Float64("otherinput"))
	other.Run(oi, other.InitialiseStates(1), data.NewArray3DFloat64(1, 1, 2))
	oD, sD := run(w, inputs, T)
	same(oA, oD, sA, sD, T, "identical-after-another-model-ran")
	// causality
	for k := 0; k < T-1; k++ {
		in2 := wrCopy3(inputs)
		for b := 0; b < N; b++ {
			for i := 0; i < nI; i++ {
				for t := k + 1; t < T; t++ {
					if concrete {
						in2.Set3(b, i, t, 0.9)
					} else {
						in2.Set3(b, i, t, vsym.Float64("laterinput"))
					}
				}
			}
		}
		if !concrete {
			wrConstrainData(name, in2, states0)
		}
		oE, _ := run(w, in2, T)
		same(oA, oE, nil, nil, k+1, "outputs-do-not-depend-on-later-inputs")
		in3 := data.NewArray3DFloat64(N, nI, k+1)
		for b := 0; b < N; b++ {
			for i := 0; i < nI; i++ {
				for t := 0; t <= k; t++ {
					in3.Set3(b, i, t, inputs.Get3(b, i, t))
				}
			}
		}
		oF, _ := run(w, in3, k+1)
		same(oA, oF, nil, nil, k+1, "truncated-series-gives-same-earlier-outputs")
	}
	// last (so that nothing it assumes can narrow the obligations above): the same object is run on
	// differently shaped data - one input block shared by all cells - and then on the original
	// data again (nothing about an earlier call's layout may survive in the object).  Same series
	// length: a longer one would exceed the loop cut under symbolic guards and assume them away.
	inX := data.NewArray3DFloat64(1, nI, T)
	for i := 0; i < nI; i++ {
		for t := 0; t < T; t++ {
			if concrete {
				inX.Set3(0, i, t, 0.75)
			} else {
				inX.Set3(0, i, t, vsym.Float64("otherlayout"))
			}
		}
	}
	if !concrete {
		wrConstrainData(name, inX, states0)
	}
	w.m.Run(inX, wrCopy2(states0), data.NewArray3DFloat64(N, nO, T))
	oG, sG := run(w, inputs, T)
	same(oA, oG, sA, sG, T, "identical-after-a-run-on-differently-shaped-data")
}
