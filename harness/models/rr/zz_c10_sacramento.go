package rr

import (
	"github.com/flowmatters/openwater-core/zzverif/vsym"
)

func c10in(tag string, lo, hi float64) float64 {
	v := vsym.Float64(tag)
	vsym.Assume(v >= lo && v <= hi)
	return v
}

// H_C10_sacramento_step: one timestep of Sacramento from an arbitrary state inside the store
// capacities; small storm (rain <= 2 mm, upper free water capacity <= 2 mm, so that the
// drainage/percolation loop runs a single increment: stated bound), capacities >= 1 mm,
// rates in (0,1), pctim + adimp <= 0.6, channel losses (ssout, sarva) enabled.
// Obligations: reported components add up, runoff and baseflow >= 0 (proved); baseflow <= runoff
// and surface runoff >= 0 (30 s counterexample search only).
//vsym:prop=C10 tier=quick ints=int floats=real timeout=120 cut=2 unwind=12 prunefrom=1 wall=600
func H_C10_sacramento_step() {
	rain, pet := c10in("rain", 0, 2), c10in("pet", 0, 10)
	lzpk, lzsk, uzk := c10in("lzpk", 0.001, 0.5), c10in("lzsk", 0.001, 0.5), c10in("uzk", 0.001, 0.5)
	uztwm, uzfwm := c10in("uztwm", 1, 100), c10in("uzfwm", 1, 2)
	lztwm, lzfsm, lzfpm := c10in("lztwm", 1, 300), c10in("lzfsm", 1, 100), c10in("lzfpm", 1, 300)
	pfree, rexp, zperc := c10in("pfree", 0, 1), c10in("rexp", 1, 3), c10in("zperc", 0, 50)
	side, ssout := c10in("side", 0, 0.5), c10in("ssout", 0, 1)
	pctim, adimp := c10in("pctim", 0, 0.3), c10in("adimp", 0, 0.3)
	sarva, rserv := c10in("sarva", 0, 0.1), c10in("rserv", 0, 0.4)
	uh := make([]float64, 5)
	sum := 0.0
	for i := range uh {
		uh[i] = c10in("uh", 0, 1)
		sum += uh[i]
	}
	vsym.Assume(sum > 0.5)
	uztwc := c10in("uztwc", 0, 100)
	uzfwc := c10in("uzfwc", 0, 2)
	lztwc := c10in("lztwc", 0, 300)
	lzfpc := c10in("lzfpc", 0, 300)
	lzfsc := c10in("lzfsc", 0, 100)
	adimc := c10in("adimc", 0, 400)
	vsym.Assume(uztwc <= uztwm && uzfwc <= uzfwm && lztwc <= lztwm && lzfpc <= lzfpm && lzfsc <= lzfsm)
	vsym.Assume(adimc >= uztwc && adimc <= uztwm+lztwm)
	aet, ro, imp, surf, bf := rrOut(1), rrOut(1), rrOut(1), rrOut(1), rrOut(1)
	a1, b1, c1, d1, e1, f1 := sacramento(rrOne(rain), rrOne(pet), uztwc, uzfwc, lztwc, lzfpc, lzfsc, adimc,
		lzpk, lzsk, uzk, uztwm, uzfwm, lztwm, lzfsm, lzfpm, pfree, rexp, zperc, side, ssout, pctim, adimp, sarva, rserv,
		uh[0], uh[1], uh[2], uh[3], uh[4], aet, ro, imp, surf, bf)
	vsym.Reach("returned")
	// every store stays between zero and its capacity, evapotranspiration and impervious runoff are
	// non-negative (counterexample searches: the percolation code is beyond a proof in the time limit)
	vsym.Hunt(a1 >= -rrAbs && a1 <= uztwm+rrAbs, "upper-tension-store-within-capacity")
	vsym.Hunt(b1 >= -rrAbs && b1 <= uzfwm+rrAbs, "upper-free-store-within-capacity")
	vsym.Hunt(c1 >= -rrAbs && c1 <= lztwm+rrAbs, "lower-tension-store-within-capacity")
	vsym.Hunt(d1 >= -rrAbs && d1 <= lzfpm+rrAbs, "lower-primary-store-within-capacity")
	vsym.Hunt(e1 >= -rrAbs && e1 <= lzfsm+rrAbs, "lower-supplemental-store-within-capacity")
	vsym.Hunt(f1 >= -rrAbs, "additional-impervious-store-nonnegative")
	// (evapotranspiration >= 0 is NOT asked from an arbitrary pre-state: with adimc below the
	// upper tension content - a state the model does not reach by itself - the ADIMP term e5 is
	// negative; the invariant that excludes it is not inductive in a form the solver can use)
	vsym.AssertNear(ro.Get1(0), surf.Get1(0)+bf.Get1(0), rrAbs, rrRel, "runoff-is-surface-plus-baseflow")
	vsym.Assert(ro.Get1(0) >= 0, "runoff-nonnegative")
	vsym.Assert(bf.Get1(0) >= 0, "baseflow-nonnegative")
	// the next two need non-negativity of the routed surface flow, whose proof through the
	// percolation code is out of the solver's reach in the time limit: counterexample search only
	vsym.Hunt(bf.Get1(0) <= ro.Get1(0)+rrAbs, "baseflow-at-most-runoff")
	vsym.Hunt(surf.Get1(0) >= -rrAbs, "surface-runoff-nonnegative")
}

// H_C10_sacramento_lower_zone_budget: a rainless step from an arbitrary lower-zone state with an
// empty upper zone (so that upper-zone evaporation, percolation and interflow vanish and the
// routed flow is the baseflow alone), no channel losses: the lower zone's water account closes,
//   tension' + (1+side)(primary' + supplemental') =
//   tension  + (1+side)(primary  + supplemental ) - transpiration - baseflow (on the pervious area),
// with transpiration = min(pet * tension/(uztwm+lztwm), tension).  This covers the tension-water
// resupply from free water (both the supplemental store and the shortfall taken from the primary
// store) and both baseflow withdrawals, for every state and parameter vector in range.
//vsym:prop=C10 tier=quick ints=int floats=real timeout=60 cut=2 unwind=12 prunefrom=1 wall=300
func H_C10_sacramento_lower_zone_budget() {
	pet := c10in("pet", 0, 10)
	lzpk, lzsk, uzk := c10in("lzpk", 0.001, 0.5), c10in("lzsk", 0.001, 0.5), c10in("uzk", 0.001, 0.5)
	uztwm, uzfwm := c10in("uztwm", 1, 100), c10in("uzfwm", 1, 50)
	lztwm, lzfsm, lzfpm := c10in("lztwm", 1, 300), c10in("lzfsm", 1, 100), c10in("lzfpm", 1, 300)
	pfree, rexp, zperc := c10in("pfree", 0, 1), c10in("rexp", 1, 3), c10in("zperc", 0, 50)
	side := c10in("side", 0, 0.5)
	pctim, adimp := c10in("pctim", 0, 0.3), c10in("adimp", 0, 0.3)
	rserv := c10in("rserv", 0, 0.4)
	lztwc := c10in("lztwc", 0, 300)
	lzfpc := c10in("lzfpc", 0, 300)
	lzfsc := c10in("lzfsc", 0, 100)
	adimc := c10in("adimc", 0, 400)
	vsym.Assume(lztwc <= lztwm && lzfpc <= lzfpm && lzfsc <= lzfsm && adimc <= uztwm+lztwm)
	aet, ro, imp, surf, bf := rrOut(1), rrOut(1), rrOut(1), rrOut(1), rrOut(1)
	_, _, t1, p1, s1, _ := sacramento(rrOne(0), rrOne(pet), 0, 0, lztwc, lzfpc, lzfsc, adimc,
		lzpk, lzsk, uzk, uztwm, uzfwm, lztwm, lzfsm, lzfpm, pfree, rexp, zperc, side, 0, pctim, adimp, 0, rserv,
		1, 0, 0, 0, 0, aet, ro, imp, surf, bf)
	vsym.Reach("returned")
	e3 := pet * lztwc / (uztwm + lztwm)
	if e3 > lztwc {
		e3 = lztwc
	}
	before := lztwc + (1+side)*(lzfpc+lzfsc)
	after := t1 + (1+side)*(p1+s1)
	bfRaw := bf.Get1(0) * (1 + side) / (1 - pctim - adimp)
	vsym.HuntNear(after, before-e3-bfRaw, 1e-6, 1e-9, "lower-zone-water-account-closes")
	vsym.Assert(t1 >= 0 && t1 <= lztwm+1e-9 && p1 >= 0 && p1 <= lzfpm+1e-9 && s1 >= 0 && s1 <= lzfsm+1e-9, "lower-zone-stores-within-capacity")
	vsym.AssertNear(ro.Get1(0), bf.Get1(0), 1e-9, 1e-9, "rainless-empty-upper-zone-runoff-is-baseflow")
}

// c10sacStorm: one timestep of Sacramento on the pervious area alone (pctim = adimp = side = 0, no
// channel losses, unit hydrograph (1,0,0,0,0)) with a storm that needs several drainage/percolation
// increments: the upper tension store is full, so that all rain minus the evaporation demand is
// available moisture, and the ranges of upper free water [uzLo, uzHi], rain [rainLo, 5.08] and PET
// [0, 0.5] put (upper free water + available moisture)/5 between ninc-1 and ninc, i.e. `ninc`
// increments (whatever the code computes is executed; the unwinding bound covers ninc+1).  Rain <=
// 5.08 mm keeps the step in the single-pass branch (adj = 1), so the increment fractions are 1/ninc
// and the drainage rates are roots of constants.  The other parameters are one concrete vector
// (given in the body).  With `full` the lower zone starts full (no percolation: the upper free
// water store fills and spills) and the obligations are proof obligations; otherwise the three
// lower-zone stores are symbolic too and the obligations are 30 s counterexample searches + native
// probing (every corner of the stated ranges satisfies the assumptions and is probed).
// Obligations: the step's water account closes,  rain = change of the five stores + actual ET +
// runoff;  every store stays within its capacity; the fluxes are non-negative and add up.
func c10sacStorm(uzfwm, uzLo, uzHi, rainLo float64, full bool, petHi float64) {
	const uztwm, lztwm, lzfsm, lzfpm = 50.0, 130.0, 25.0, 60.0
	rain, pet := c10in("rain", rainLo, 5.08), 0.0
	if petHi > 0 {
		pet = c10in("pet", 0, petHi)
	}
	uzfwc := c10in("uzfwc", uzLo, uzHi)
	lztwc, lzfpc, lzfsc := lztwm, lzfpm, lzfsm
	if !full {
		lztwc = c10in("lztwc", 0, lztwm)
		lzfpc = c10in("lzfpc", 0, lzfpm)
		lzfsc = c10in("lzfsc", 0, lzfsm)
	}
	aet, ro, imp, surf, bf := rrOut(1), rrOut(1), rrOut(1), rrOut(1), rrOut(1)
	a1, b1, c1, d1, e1, _ := sacramento(rrOne(rain), rrOne(pet), uztwm, uzfwc, lztwc, lzfpc, lzfsc, uztwm+lztwc,
		0.01, 0.05, 0.3, uztwm, uzfwm, lztwm, lzfsm, lzfpm, 0.06, 1.0, 40, 0, 0, 0, 0, 0, 0.3,
		1, 0, 0, 0, 0, aet, ro, imp, surf, bf)
	vsym.Reach("returned")
	before := uztwm + uzfwc + lztwc + lzfpc + lzfsc
	after := a1 + b1 + c1 + d1 + e1
	if full {
		vsym.AssertNear(rain, after-before+aet.Get1(0)+ro.Get1(0), 1e-7, 1e-9, "storm-step-water-account-closes")
		vsym.Assert(a1 >= -rrAbs && a1 <= uztwm+rrAbs, "upper-tension-store-within-capacity")
		vsym.Assert(b1 >= -rrAbs && b1 <= uzfwm+rrAbs, "upper-free-store-within-capacity")
		vsym.Assert(c1 >= -rrAbs && c1 <= lztwm+rrAbs, "lower-tension-store-within-capacity")
		vsym.Assert(d1 >= -rrAbs && d1 <= lzfpm+rrAbs, "lower-primary-store-within-capacity")
		vsym.Assert(e1 >= -rrAbs && e1 <= lzfsm+rrAbs, "lower-supplemental-store-within-capacity")
		vsym.Assert(ro.Get1(0) >= -rrAbs && bf.Get1(0) >= -rrAbs && surf.Get1(0) >= -rrAbs && aet.Get1(0) >= -rrAbs, "fluxes-nonnegative")
		vsym.AssertNear(ro.Get1(0), surf.Get1(0)+bf.Get1(0), rrAbs, rrRel, "runoff-is-surface-plus-baseflow")
		return
	}
	vsym.HuntNear(rain, after-before+aet.Get1(0)+ro.Get1(0), 1e-7, 1e-9, "storm-step-water-account-closes")
	vsym.Hunt(a1 >= -rrAbs && a1 <= uztwm+rrAbs, "upper-tension-store-within-capacity")
	vsym.Hunt(b1 >= -rrAbs && b1 <= uzfwm+rrAbs, "upper-free-store-within-capacity")
	vsym.Hunt(c1 >= -rrAbs && c1 <= lztwm+rrAbs, "lower-tension-store-within-capacity")
	vsym.Hunt(d1 >= -rrAbs && d1 <= lzfpm+rrAbs, "lower-primary-store-within-capacity")
	vsym.Hunt(e1 >= -rrAbs && e1 <= lzfsm+rrAbs, "lower-supplemental-store-within-capacity")
	vsym.Hunt(ro.Get1(0) >= -rrAbs && bf.Get1(0) >= -rrAbs && surf.Get1(0) >= -rrAbs && aet.Get1(0) >= -rrAbs, "fluxes-nonnegative")
	vsym.HuntNear(ro.Get1(0), surf.Get1(0)+bf.Get1(0), rrAbs, rrRel, "runoff-is-surface-plus-baseflow")
}

// H_C10_sacramento_storm2_full: two increments, upper free water capacity 6 mm, lower zone full
// (proof obligations; see c10sacStorm).
//vsym:prop=C10 tier=quick ints=int floats=real timeout=60 cut=6 unwind=12 prunefrom=1 prune=all concf2i=1 wall=600
func H_C10_sacramento_storm2_full() { c10sacStorm(6, 3, 4.9, 2.5, true, 0.5) }

// H_C10_sacramento_storm2: two increments, upper free water capacity 6 mm, symbolic lower zone
// (counterexample searches; see c10sacStorm).
//vsym:prop=C10 tier=quick ints=int floats=real timeout=30 cut=6 unwind=12 prunefrom=1 prune=all concf2i=1 wall=600
func H_C10_sacramento_storm2() { c10sacStorm(6, 3, 4.9, 2.5, false, 0.5) }

// H_C10_sacramento_storm3_full: three increments, upper free water capacity 12 mm, lower zone full.
//vsym:prop=C10 tier=quick ints=int floats=real timeout=60 cut=6 unwind=12 prunefrom=1 prune=all concf2i=1 wall=600
func H_C10_sacramento_storm3_full() { c10sacStorm(12, 6, 9.9, 4.5, true, 0.5) }

// H_C10_sacramento_storm2_full_nopet: as storm2_full without evaporation demand.
//vsym:prop=C10 tier=quick ints=int floats=real timeout=60 cut=6 unwind=12 prunefrom=1 prune=all concf2i=1 wall=600
func H_C10_sacramento_storm2_full_nopet() { c10sacStorm(6, 3, 4.9, 2.5, true, 0) }

// H_C10_sacramento_storm_sym: the storm step of c10sacStorm with SYMBOLIC parameters (capacities,
// rates, percolation constants in the ranges of H_C10_sacramento_step, upper free water capacity
// up to 10 mm) on the pervious area alone, upper tension store full, rain <= 5.08 mm (single
// pass), 1 to 3 increments as the code computes (increment count concretised by forking).
// Counterexample searches (30 s each) for the water account and the store bounds; what the solver
// answers unsat is proved.
//vsym:prop=C10 tier=thorough ints=int floats=real timeout=60 cut=6 unwind=12 prunefrom=1 prune=all concf2i=1 wall=1800
func H_C10_sacramento_storm_sym() {
	rain, pet := c10in("rain", 0, 5.08), c10in("pet", 0, 2)
	lzpk, lzsk, uzk := c10in("lzpk", 0.001, 0.5), c10in("lzsk", 0.001, 0.5), c10in("uzk", 0.001, 0.5)
	uztwm, uzfwm := c10in("uztwm", 1, 100), c10in("uzfwm", 1, 10)
	lztwm, lzfsm, lzfpm := c10in("lztwm", 1, 300), c10in("lzfsm", 1, 100), c10in("lzfpm", 1, 300)
	pfree, zperc := c10in("pfree", 0, 1), c10in("zperc", 0, 50)
	rserv := c10in("rserv", 0, 0.4)
	uzfwc := c10in("uzfwc", 0, 10)
	lztwc := c10in("lztwc", 0, 300)
	lzfpc := c10in("lzfpc", 0, 300)
	lzfsc := c10in("lzfsc", 0, 100)
	vsym.Assume(uzfwc <= uzfwm && lztwc <= lztwm && lzfpc <= lzfpm && lzfsc <= lzfsm && rain >= pet)
	aet, ro, imp, surf, bf := rrOut(1), rrOut(1), rrOut(1), rrOut(1), rrOut(1)
	a1, b1, c1, d1, e1, _ := sacramento(rrOne(rain), rrOne(pet), uztwm, uzfwc, lztwc, lzfpc, lzfsc, uztwm+lztwc,
		lzpk, lzsk, uzk, uztwm, uzfwm, lztwm, lzfsm, lzfpm, pfree, 1.0, zperc, 0, 0, 0, 0, 0, rserv,
		1, 0, 0, 0, 0, aet, ro, imp, surf, bf)
	vsym.Reach("returned")
	before := uztwm + uzfwc + lztwc + lzfpc + lzfsc
	after := a1 + b1 + c1 + d1 + e1
	vsym.HuntNear(rain, after-before+aet.Get1(0)+ro.Get1(0), 1e-7, 1e-9, "storm-step-water-account-closes")
	vsym.Hunt(a1 >= -rrAbs && a1 <= uztwm+rrAbs, "upper-tension-store-within-capacity")
	vsym.Hunt(b1 >= -rrAbs && b1 <= uzfwm+rrAbs, "upper-free-store-within-capacity")
	vsym.Hunt(c1 >= -rrAbs && c1 <= lztwm+rrAbs, "lower-tension-store-within-capacity")
	vsym.Hunt(d1 >= -rrAbs && d1 <= lzfpm+rrAbs, "lower-primary-store-within-capacity")
	vsym.Hunt(e1 >= -rrAbs && e1 <= lzfsm+rrAbs, "lower-supplemental-store-within-capacity")
	vsym.Hunt(ro.Get1(0) >= -rrAbs && bf.Get1(0) >= -rrAbs && surf.Get1(0) >= -rrAbs && aet.Get1(0) >= -rrAbs, "fluxes-nonnegative")
}
