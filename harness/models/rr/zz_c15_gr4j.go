package rr

import (
	"math"

	"github.com/flowmatters/openwater-core/zzverif/vsym"
)

// ---- independent transcription of Perrin, Michel & Andreassian (2003) ----

func pmSH1(t, x4 float64) float64 {
	if t <= 0 {
		return 0
	}
	if t >= x4 {
		return 1
	}
	return math.Pow(t/x4, 2.5)
}

func pmSH2(t, x4 float64) float64 {
	if t <= 0 {
		return 0
	}
	if t >= 2*x4 {
		return 1
	}
	if t <= x4 {
		return 0.5 * math.Pow(t/x4, 2.5)
	}
	return 1 - 0.5*math.Pow(2-t/x4, 2.5)
}

// one day of GR4J on explicit state; returns runoff and the new state.  The non-linear
// sub-expressions (tanh argument, the two 1/4-power terms, the 7/2-power exchange term) are
// written in the same algebraic form as the model source so that the solver compares like with
// like; what is independent is everything the property is about: the S-curves and their
// ordinates, the branch taken, the 90/10 split, buffer bookkeeping, exchange and the two outflows.
func pmStep(P, E, S, R float64, q9, q1 []float64, x1, x2, x3, x4 float64) (Q, S2, R2 float64, q9n, q1n []float64) {
	n1, n2 := len(q9), len(q1)
	Pn, Ps, Es, pr0 := 0.0, 0.0, 0.0, 0.0
	if P > E {
		Pn = P - E
		ws := Pn / x1
		if ws > 13.0 {
			ws = 13.0
		}
		Ps = (x1 * (1 - math.Pow(S/x1, 2.0)) * math.Tanh(ws)) / (1.0 + (S/x1)*math.Tanh(ws))
		pr0 = Pn - Ps // the part of the net rainfall that bypasses the production store
	} else {
		En := E - P
		ws := En / x1
		if ws > 13.0 {
			ws = 13.0
		}
		Es = (S * (2 - S/x1) * math.Tanh(ws)) / (1 + (1-S/x1)*math.Tanh(ws))
	}
	S = S - Es + Ps
	perc := S * (1 - math.Pow((1+math.Pow((4.0/9.0)*(S/x1), 4.0)), -0.25))
	S = S - perc
	Pr := perc + pr0
	q9n, q1n = make([]float64, n1), make([]float64, n2)
	for j := 1; j <= n1; j++ {
		q9n[j-1] = q9[j-1] + (Pr * 0.9 * (pmSH1(float64(j), x4) - pmSH1(float64(j-1), x4)))
	}
	for j := 1; j <= n2; j++ {
		q1n[j-1] = q1[j-1] + (Pr * 0.1 * (pmSH2(float64(j), x4) - pmSH2(float64(j-1), x4)))
	}
	Q9, Q1 := q9n[0], q1n[0]
	for j := 0; j+1 < n1; j++ {
		q9n[j] = q9n[j+1]
	}
	q9n[n1-1] = 0
	for j := 0; j+1 < n2; j++ {
		q1n[j] = q1n[j+1]
	}
	q1n[n2-1] = 0
	F := x2 * math.Pow(R/x3, 7.0/2.0)
	R = R + Q9 + F
	if R < 0 {
		R = 0
	}
	Qr := (R - R/math.Pow(1+math.Pow(R/x3, 4.0), 0.25))
	R = R - Qr
	Qd := 0.0
	if Q1+F > 0 {
		Qd = Q1 + F
	}
	return Qr + Qd, S, R, q9n, q1n
}

const c15Abs = 1e-7
const c15Rel = 1e-7

func c15step(x4 float64) { c15stepx(x4, false) }

func c15stepx(x4 float64, packed bool) {
	n1, n2 := int(math.Ceil(x4)), int(math.Ceil(2*x4))
	P, E := rrNonNeg("rain"), rrNonNeg("pet")
	x1, x2, x3 := vsym.Float64("x1"), vsym.Float64("x2"), vsym.Float64("x3")
	vsym.Assume(x1 >= 1 && x1 <= 1500 && x2 >= -10 && x2 <= 5 && x3 >= 1 && x3 <= 500)
	S, R := vsym.Float64("S"), vsym.Float64("R")
	vsym.Assume(S >= 0 && S <= x1 && R >= 0 && R <= x3)
	q9, q1 := make([]float64, n1), make([]float64, n2)
	q9c, q1c := make([]float64, n1), make([]float64, n2)
	if packed {
		// the layout of the packed state row: [S R n1 n2 | q1 (n2) | q9 (n1) | next cell ...]
		row := make([]float64, 4+n2+n1+4)
		q1c, q9c = row[4:4+n2], row[4+n2:4+n2+n1]
	}
	for i := range q9 {
		q9[i] = rrNonNeg("q9")
		q9c[i] = q9[i]
	}
	for i := range q1 {
		q1[i] = rrNonNeg("q1")
		q1c[i] = q1[i]
	}
	out := rrOut(1)
	S2, R2, m1, m2, q1o, q9o := gr4j(rrOne(P), rrOne(E), S, R, n1, n2, q1c, q9c, x1, x2, x3, x4, out)
	Qe, Se, Re, q9e, q1e := pmStep(P, E, S, R, q9, q1, x1, x2, x3, x4)
	vsym.Reach("stepped")
	vsym.Assert(m1 == n1 && m2 == n2, "uh-lengths-unchanged")
	vsym.AssertNear(out.Get1(0), Qe, c15Abs, c15Rel, "runoff-equals-published-equations")
	vsym.AssertNear(S2, Se, c15Abs, c15Rel, "production-store-equals-published-equations")
	vsym.AssertNear(R2, Re, c15Abs, c15Rel, "routing-store-equals-published-equations")
	for i := 0; i < n1; i++ {
		vsym.AssertNear(q9o[i], q9e[i], c15Abs, c15Rel, "uh1-buffer-equals-published-equations")
	}
	for i := 0; i < n2; i++ {
		vsym.AssertNear(q1o[i], q1e[i], c15Abs, c15Rel, "uh2-buffer-equals-published-equations")
	}
}

// One harness per unit-hydrograph time base (x4 fixed: it determines array lengths and the
// S-curve ordinates; x1, x2, x3, the stores, both UH buffers, rain and PET are symbolic): one
// day of the real gr4j from an arbitrary common state equals the independent transcription.

// H_C15_x4_0p5: x4 = 0.5 (UH lengths 1, 1).
//vsym:prop=C15 tier=quick ints=int floats=real timeout=30
func H_C15_x4_0p5() { c15step(0.5) }

// H_C15_x4_0p75: x4 = 0.75 (1, 2).
//vsym:prop=C15 tier=quick ints=int floats=real timeout=30
func H_C15_x4_0p75() { c15step(0.75) }

// H_C15_x4_1: x4 = 1 (1, 2).
//vsym:prop=C15 tier=quick ints=int floats=real timeout=30
func H_C15_x4_1() { c15step(1) }

// H_C15_x4_1p5: x4 = 1.5 (2, 3).
//vsym:prop=C15 tier=quick ints=int floats=real timeout=30
func H_C15_x4_1p5() { c15step(1.5) }

// H_C15_x4_2: x4 = 2 (2, 4).
//vsym:prop=C15 tier=quick ints=int floats=real timeout=30
func H_C15_x4_2() { c15step(2) }

// H_C15_x4_2p5: x4 = 2.5 (3, 5).
//vsym:prop=C15 tier=quick ints=int floats=real timeout=30
func H_C15_x4_2p5() { c15step(2.5) }

// H_C15_x4_3p5: x4 = 3.5 (4, 7).
//vsym:prop=C15 tier=quick ints=int floats=real timeout=30
func H_C15_x4_3p5() { c15step(3.5) }

// H_C15_x4_4: x4 = 4 (4, 8).
//vsym:prop=C15 tier=quick ints=int floats=real timeout=30
func H_C15_x4_4() { c15step(4) }

// H_C15_x4_3: x4 = 3 (3, 6).
//vsym:prop=C15 tier=thorough ints=int floats=real timeout=60
func H_C15_x4_3() { c15step(3) }

// H_C15_x4_1p2: x4 = 1.2 (2, 3), a non-half-integer time base.
//vsym:prop=C15 tier=thorough ints=int floats=real timeout=60
func H_C15_x4_1p2() { c15step(1.2) }

// H_C15_packed_x4_1p5: as H_C15_x4_1p5, but the two unit-hydrograph queues handed to the kernel are
// windows of ONE backing array laid out like the packed state row ([.. q1 | q9 ..], spare capacity
// behind each window) - which is how Run hands them over - instead of two freshly made slices: a
// kernel that appends to one queue must not overwrite the other.
//vsym:prop=C15 tier=quick ints=int floats=real timeout=120
func H_C15_packed_x4_1p5() { c15stepx(1.5, true) }

// H_C15_packed_x4_0p75: the same for x4 = 0.75 (queue lengths 1 and 2).
//vsym:prop=C15 tier=quick ints=int floats=real timeout=120
func H_C15_packed_x4_0p75() { c15stepx(0.75, true) }
