package rr

import (
	"github.com/flowmatters/openwater-core/data"
	"github.com/flowmatters/openwater-core/zzverif/vsym"
)

func c06split(a data.ND1Float64, from, n int) data.ND1Float64 {
	r := data.NewArray1DFloat64(n)
	for i := 0; i < n; i++ {
		r.Set1(i, a.Get1(from+i))
	}
	return r
}

// H_C06_simhyd: T=3 in one call vs. every split (1+2, 2+1, 1+1+1) carrying the returned states:
// identical outputs at every timestep and identical final states.  Arbitrary parameters/states.
//vsym:prop=C06 tier=quick ints=int floats=real
func H_C06_simhyd() {
	T := 3
	rain, pet := rrSeries("rain", T), rrSeries("pet", T)
	p := make([]float64, 9)
	for i := range p {
		p[i] = vsym.Float64("param")
	}
	vsym.Assume(p[8] > 0)
	s0, g0, t0 := vsym.Float64("sms"), vsym.Float64("gw"), vsym.Float64("ts")
	run := func(from, n int, s, g, t float64) (float64, float64, float64, []data.ND1Float64) {
		o := []data.ND1Float64{rrOut(n), rrOut(n), rrOut(n), rrOut(n)}
		s2, g2, t2 := simhyd(c06split(rain, from, n), c06split(pet, from, n), s, g, t, p[0], p[1], p[2], p[3], p[4], p[5], p[6], p[7], p[8], o[0], o[1], o[2], o[3])
		return s2, g2, t2, o
	}
	sA, gA, tA, oA := run(0, T, s0, g0, t0)
	vsym.Reach("one-shot")
	for _, cut := range [][]int{{1, 2}, {2, 1}, {1, 1, 1}} {
		s, g, t := s0, g0, t0
		from := 0
		for _, n := range cut {
			var o []data.ND1Float64
			s, g, t, o = run(from, n, s, g, t)
			for k := 0; k < n; k++ {
				for v := 0; v < 4; v++ {
					vsym.AssertNear(o[v].Get1(k), oA[v].Get1(from+k), rrAbs, rrRel, "split-outputs-equal-one-shot")
				}
			}
			from += n
		}
		vsym.AssertNear(s, sA, rrAbs, rrRel, "split-final-states-equal-one-shot")
		vsym.AssertNear(g, gA, rrAbs, rrRel, "split-final-states-equal-one-shot")
		vsym.AssertNear(t, tA, rrAbs, rrRel, "split-final-states-equal-one-shot")
	}
}

// H_C06_surm: same for Surm.
//vsym:prop=C06 tier=quick ints=int floats=real
func H_C06_surm() {
	T := 3
	rain, pet := rrSeries("rain", T), rrSeries("pet", T)
	p := make([]float64, 9)
	for i := range p {
		p[i] = vsym.Float64("param")
	}
	vsym.Assume(p[6] > 0)
	s0, g0, t0 := vsym.Float64("sms"), vsym.Float64("gw"), vsym.Float64("ts")
	run := func(from, n int, s, g, t float64) (float64, float64, float64, []data.ND1Float64) {
		o := []data.ND1Float64{rrOut(n), rrOut(n), rrOut(n), rrOut(n)}
		s2, g2, t2 := surm(c06split(rain, from, n), c06split(pet, from, n), s, g, t, p[0], p[1], p[2], p[3], p[4], p[5], p[6], p[7], p[8], o[0], o[1], o[2], o[3])
		return s2, g2, t2, o
	}
	sA, gA, tA, oA := run(0, T, s0, g0, t0)
	vsym.Reach("one-shot")
	for _, cut := range [][]int{{1, 2}, {2, 1}, {1, 1, 1}} {
		s, g, t := s0, g0, t0
		from := 0
		for _, n := range cut {
			var o []data.ND1Float64
			s, g, t, o = run(from, n, s, g, t)
			for k := 0; k < n; k++ {
				for v := 0; v < 4; v++ {
					vsym.AssertNear(o[v].Get1(k), oA[v].Get1(from+k), rrAbs, rrRel, "split-outputs-equal-one-shot")
				}
			}
			from += n
		}
		vsym.AssertNear(s, sA, rrAbs, rrRel, "split-final-states-equal-one-shot")
		vsym.AssertNear(g, gA, rrAbs, rrRel, "split-final-states-equal-one-shot")
		vsym.AssertNear(t, tA, rrAbs, rrRel, "split-final-states-equal-one-shot")
	}
}

// H_C06_gr4j_pack: nothing is lost or moved when GR4J states are packed into a state row and
// extracted again (n1, n2 in 1..4 / 1..8 as for x4 in [0.5,4]), arbitrary store and buffer values.
//vsym:prop=C06 tier=quick ints=int floats=real
func H_C06_gr4j_pack() {
	n1 := vsym.Int("n1")
	vsym.Assume(n1 >= 1 && n1 <= 4)
	n1 = vsym.Concrete(n1)
	n2 := vsym.Int("n2")
	vsym.Assume(n2 >= 2*n1-1 && n2 <= 2*n1)
	n2 = vsym.Concrete(n2)
	s, r := vsym.Float64("s"), vsym.Float64("r")
	q1, q9 := make([]float64, n2), make([]float64, n1)
	for i := range q1 {
		q1[i] = vsym.Float64("q1")
	}
	for i := range q9 {
		q9[i] = vsym.Float64("q9")
	}
	packed := packGR4JStates(s, r, n1, n2, q1, q9)
	row := packed.Slice([]int{0, 0}, []int{1, 4 + n1 + n2}, nil).MustReshape([]int{4 + n1 + n2}).(data.ND1Float64)
	s2, r2, m1, m2, p1, p9 := extractGR4JStates(row)
	vsym.Reach("roundtrip")
	vsym.Assert(s2 == s, "production-store-survives-pack-extract")
	vsym.Assert(r2 == r, "routing-store-survives-pack-extract")
	vsym.Assert(m1 == n1 && m2 == n2, "uh-lengths-survive-pack-extract")
	vsym.Assert(len(p1) == n2 && len(p9) == n1, "uh-buffer-lengths")
	for i := 0; i < n2 && i < len(p1); i++ {
		vsym.Assert(p1[i] == q1[i], "uh2-buffer-survives-pack-extract")
	}
	for i := 0; i < n1 && i < len(p9); i++ {
		vsym.Assert(p9[i] == q9[i], "uh1-buffer-survives-pack-extract")
	}
}

func c06gr4j(x4 float64, n1, n2 int) {
	T := 2
	rain, pet := rrSeries("rain", T), rrSeries("pet", T)
	x1, x2, x3 := vsym.Float64("x1"), vsym.Float64("x2"), vsym.Float64("x3")
	vsym.Assume(x1 >= 1 && x1 <= 1500 && x2 >= -10 && x2 <= 5 && x3 >= 1 && x3 <= 500)
	s0, r0 := vsym.Float64("s"), vsym.Float64("r")
	vsym.Assume(s0 >= 0 && s0 <= x1 && r0 >= 0)
	mk := func(tag string, n int) []float64 {
		b := make([]float64, n)
		for i := range b {
			b[i] = vsym.Float64(tag)
			vsym.Assume(b[i] >= 0)
		}
		return b
	}
	q1a, q9a := mk("q1", n2), mk("q9", n1)
	q1b, q9b := make([]float64, n2), make([]float64, n1)
	copy(q1b, q1a)
	copy(q9b, q9a)
	outA := rrOut(T)
	sA, rA, _, _, q1A, q9A := gr4j(rain, pet, s0, r0, n1, n2, q1a, q9a, x1, x2, x3, x4, outA)
	vsym.Reach("one-shot")
	o1, o2 := rrOut(1), rrOut(1)
	s1, r1, m1, m2, q1m, q9m := gr4j(c06split(rain, 0, 1), c06split(pet, 0, 1), s0, r0, n1, n2, q1b, q9b, x1, x2, x3, x4, o1)
	s2, r2, _, _, q1B, q9B := gr4j(c06split(rain, 1, 1), c06split(pet, 1, 1), s1, r1, m1, m2, q1m, q9m, x1, x2, x3, x4, o2)
	vsym.AssertNear(o1.Get1(0), outA.Get1(0), rrAbs, rrRel, "split-outputs-equal-one-shot")
	vsym.AssertNear(o2.Get1(0), outA.Get1(1), rrAbs, rrRel, "split-outputs-equal-one-shot")
	vsym.AssertNear(s2, sA, rrAbs, rrRel, "split-final-states-equal-one-shot")
	vsym.AssertNear(r2, rA, rrAbs, rrRel, "split-final-states-equal-one-shot")
	for i := 0; i < n2; i++ {
		vsym.AssertNear(q1B[i], q1A[i], rrAbs, rrRel, "split-final-states-equal-one-shot")
	}
	for i := 0; i < n1; i++ {
		vsym.AssertNear(q9B[i], q9A[i], rrAbs, rrRel, "split-final-states-equal-one-shot")
	}
}

// H_C06_gr4j_kernel_x4_1p5: GR4J kernel T=2 vs 1+1 for x4 = 1.5 (UH lengths 2 and 3).
//vsym:prop=C06 tier=quick ints=int floats=real timeout=120
func H_C06_gr4j_kernel_x4_1p5() { c06gr4j(1.5, 2, 3) }

// H_C06_gr4j_kernel_x4_1: x4 = 1 (UH lengths 1 and 2).
//vsym:prop=C06 tier=quick ints=int floats=real timeout=120
func H_C06_gr4j_kernel_x4_1() { c06gr4j(1, 1, 2) }

// H_C06_known_sacramento_uh: the concrete scenario of the known finding
// C06-sacramento-unit-hydrograph-buffer-not-a-state.  Sacramento routes its channel inflow
// through a unit hydrograph whose pipeline `qq` is a local of the kernel: it is not among the six
// returned states, so a continued run starts with an empty pipeline.  A 30 mm storm on day 1 with
// ordinates 0.5/0.5: the uninterrupted run delivers the second half of the storm's quick flow on
// day 2, the run continued from the returned states does not.
//vsym:prop=C06 tier=quick ints=int floats=real timeout=60 unwind=200 maxruns=50
func H_C06_known_sacramento_uh() {
	two := func(a, b float64) data.ND1Float64 {
		x := data.NewArray1DFloat64(2)
		x.Set1(0, a)
		x.Set1(1, b)
		return x
	}
	run := func(rain, pet data.ND1Float64, s [6]float64) ([6]float64, data.ND1Float64) {
		n := rain.Len1()
		aet, ro, imp, surf, bf := rrOut(n), rrOut(n), rrOut(n), rrOut(n), rrOut(n)
		a, b, c, d, e, f := sacramento(rain, pet, s[0], s[1], s[2], s[3], s[4], s[5],
			0.06, 0.05, 0.3, 50, 40, 130, 25, 60, 0.06, 1.0, 40, 0, 0, 0.01, 0, 0, 0.3,
			0.5, 0.5, 0, 0, 0, aet, ro, imp, surf, bf)
		return [6]float64{a, b, c, d, e, f}, ro
	}
	vsym.Reach("about-to-run")
	var zero [6]float64
	_, whole := run(two(30, 0), two(0, 0), zero)
	s1, first := run(rrOne(30), rrOne(0), zero)
	_, second := run(rrOne(0), rrOne(0), s1)
	vsym.AssertNear(first.Get1(0), whole.Get1(0), 1e-9, 1e-9, "first-day-equal")
	vsym.AssertNear(second.Get1(0), whole.Get1(1), 1e-9, 1e-9, "continued-run-delivers-the-routed-flow-of-the-previous-segment")
}

// c06sacSplit: Sacramento hot start on the kernel itself, with the unit hydrograph (1,0,0,0,0) so
// that the pipeline `qq` (known finding) carries nothing across the split: two timesteps in one
// call versus one + one with the six returned states handed over.  Rain (<= 5.08 mm: single-pass
// branch) and PET of the second day are symbolic, the first day is concrete or symbolic (see the
// harnesses); the parameters are one
// concrete vector with SIDE = 0.3 (the lower-zone free water stores are kept internally scaled by
// 1+side, so the hand-over has to unscale and rescale them), pctim 0.01, adimp 0.05, channel
// losses on.  Every output of day two and every final state must agree.  Directives prune=all and
// concf2i=1 keep the increment fractions constant (see c10sacStorm).
func c06sacSplit(side float64, symbolicFirstDay bool) {
	const uztwm, uzfwm, lztwm, lzfsm, lzfpm = 50.0, 8.0, 130.0, 25.0, 60.0
	in := func(tag string, lo, hi float64) float64 {
		v := vsym.Float64(tag)
		vsym.Assume(v >= lo && v <= hi)
		return v
	}
	r2, p2 := in("rain2", 0, 5.08), in("pet2", 0, 3)
	var r1, p1 float64
	var s0 [6]float64
	if symbolicFirstDay {
		r1, p1 = in("rain1", 0, 5.08), in("pet1", 0, 3)
		s0 = [6]float64{in("uztwc", 0, uztwm), in("uzfwc", 0, uzfwm), in("lztwc", 0, lztwm), in("lzfpc", 0, lzfpm/(1+side)), in("lzfsc", 0, lzfsm/(1+side)), in("adimc", 0, uztwm+lztwm)}
		vsym.Assume(s0[5] >= s0[0])
	} else {
		// the first day is one concrete wet day from a concrete wet catchment (all six stores part
		// full, lower-zone free water present): the state handed over is then a vector of exact
		// rationals, and the second day (symbolic rain and PET) starts from it
		r1, p1 = 5, 1
		s0 = [6]float64{40, 6, 100, 30, 12, 150}
	}
	two := func(a, b float64) data.ND1Float64 {
		x := data.NewArray1DFloat64(2)
		x.Set1(0, a)
		x.Set1(1, b)
		return x
	}
	run := func(rain, pet data.ND1Float64, s [6]float64) ([6]float64, [5]data.ND1Float64) {
		n := rain.Len1()
		o := [5]data.ND1Float64{rrOut(n), rrOut(n), rrOut(n), rrOut(n), rrOut(n)}
		a, b, c, d, e, f := sacramento(rain, pet, s[0], s[1], s[2], s[3], s[4], s[5],
			0.01, 0.05, 0.3, uztwm, uzfwm, lztwm, lzfsm, lzfpm, 0.06, 1.0, 40, side, 0.001, 0.01, 0.05, 0.01, 0.3,
			1, 0, 0, 0, 0, o[0], o[1], o[2], o[3], o[4])
		return [6]float64{a, b, c, d, e, f}, o
	}
	sw, whole := run(two(r1, r2), two(p1, p2), s0)
	s1, _ := run(rrOne(r1), rrOne(p1), s0)
	s2, second := run(rrOne(r2), rrOne(p2), s1)
	vsym.Reach("three-runs")
	for i := 0; i < 5; i++ {
		vsym.AssertNear(second[i].Get1(0), whole[i].Get1(1), 1e-9, 1e-9, "continued-run-output-equals-uninterrupted-run")
	}
	for i := 0; i < 6; i++ {
		vsym.AssertNear(s2[i], sw[i], 1e-9, 1e-9, "continued-run-final-state-equals-uninterrupted-run")
	}
}

// H_C06_sacramento_split_side: see c06sacSplit, side = 0.3, concrete first day, symbolic second day.
//vsym:prop=C06 tier=quick ints=int floats=real timeout=120 cut=6 unwind=12 prunefrom=1 prune=all concf2i=1 wall=900 maxruns=200
func H_C06_sacramento_split_side() { c06sacSplit(0.3, false) }

// H_C06_sacramento_split_noside: side = 0.
//vsym:prop=C06 tier=quick ints=int floats=real timeout=120 cut=6 unwind=12 prunefrom=1 prune=all concf2i=1 wall=900 maxruns=200
func H_C06_sacramento_split_noside() { c06sacSplit(0, false) }

// H_C06_sacramento_split_side_sym: both days and the initial stores symbolic (z3 does not decide
// most of these within the budget: thorough tier, reported INCONCLUSIVE where undecided).
//vsym:prop=C06 tier=thorough ints=int floats=real timeout=120 cut=6 unwind=12 prunefrom=1 prune=all concf2i=1 wall=1800 maxruns=200
func H_C06_sacramento_split_side_sym() { c06sacSplit(0.3, true) }
