package rr

import (
	"github.com/flowmatters/openwater-core/zzverif/vsym"
)

// H_C10_coeff: RunoffCoefficient, T=2: runoff = c*rain, non-negative, never exceeds rain for 0<=c<=1.
//vsym:prop=C10 tier=quick ints=int floats=real
func H_C10_coeff() {
	T := 2
	rain := rrSeries("rain", T)
	c := rrUnit("coeff")
	out := rrOut(T)
	runoffCoefficient(rain, c, out)
	vsym.Reach("coeff")
	for t := 0; t < T; t++ {
		vsym.Assert(out.Get1(t) == c*rain.Get1(t), "runoff-is-coefficient-times-rain")
		vsym.Assert(out.Get1(t) >= 0, "runoff-nonnegative")
		vsym.Assert(out.Get1(t) <= rain.Get1(t), "runoff-at-most-rain")
	}
}

func c10simhyd(T int, fromZero bool) {
	rain, pet := rrSeries("rain", T), rrSeries("pet", T)
	bfc, ifc, pf, rc := rrUnit("baseflowCoefficient"), rrUnit("interflowCoefficient"), rrUnit("perviousFraction"), rrUnit("rechargeCoefficient")
	it, ic, is, risc := rrNonNeg("imperviousThreshold"), rrNonNeg("infiltrationCoefficient"), rrNonNeg("infiltrationShape"), rrNonNeg("risc")
	smsc := vsym.Float64("smsc")
	vsym.Assume(smsc > 0)
	var sms, gw, ts float64
	if !fromZero {
		sms, gw = vsym.Float64("sms"), vsym.Float64("gw")
		vsym.Assume(sms >= 0 && sms <= smsc && gw >= 0)
		ts = vsym.Float64("ts")
	}
	ro, qf, bf, st := rrOut(T), rrOut(T), rrOut(T), rrOut(T)
	sms2, gw2, ts2 := simhyd(rain, pet, sms, gw, ts, bfc, it, ic, is, ifc, pf, risc, rc, smsc, ro, qf, bf, st)
	vsym.Reach("simhyd")
	sumRain, sumRunoff := 0.0, 0.0
	for t := 0; t < T; t++ {
		vsym.Assert(ro.Get1(t) >= 0 && qf.Get1(t) >= 0 && bf.Get1(t) >= 0 && st.Get1(t) >= 0, "outputs-nonnegative")
		vsym.AssertNear(ro.Get1(t), qf.Get1(t)+bf.Get1(t), rrAbs, rrRel, "runoff-is-quick-plus-base")
		vsym.Assert(st.Get1(t) <= smsc, "reported-store-within-capacity")
		sumRain += rain.Get1(t)
		sumRunoff += ro.Get1(t)
	}
	vsym.Assert(sms2 >= 0 && sms2 <= smsc, "soil-store-within-0-capacity")
	vsym.Assert(gw2 >= 0, "groundwater-nonnegative")
	vsym.AssertNear(ts2, (sms2+gw2)*pf, rrAbs, rrRel, "total-store-is-weighted-sum")
	// step budget with storage functional pf*(sms+gw): no water is created
	if T == 1 || vsym.Thorough() {
		vsym.AssertLe(sumRunoff+pf*(sms2+gw2), sumRain+pf*(sms+gw), rrAbs, rrRel, "no-water-created")
	}
}

// H_C10_simhyd_step: one timestep from an arbitrary state with 0<=sms<=smsc, gw>=0; parameters:
// coefficients/fractions in [0,1], thresholds/capacities >= 0, smsc > 0; rain, pet >= 0.
// Obligations: outputs >= 0, runoff = quick+base, stores in range (so the invariant is
// inductive), budget runoff + pf*(sms'+gw') <= rain + pf*(sms+gw).  exp() by contract.
//vsym:prop=C10 tier=quick ints=int floats=real timeout=120
func H_C10_simhyd_step() { c10simhyd(1, false) }

// H_C10_simhyd_two: two timesteps from the zero state (direct, independent of the invariant); the
// two-step cumulative budget is attempted in the thorough tier only (it is the telescoped sum of the step budget).
//vsym:prop=C10 tier=quick ints=int floats=real timeout=120
func H_C10_simhyd_two() { c10simhyd(2, true) }

func c10surm(T int, fromZero bool) {
	rain, pet := rrSeries("rain", T), rrSeries("pet", T)
	bfac, dseep, fcFrac, fimp, rfac := rrUnit("bfac"), rrUnit("dseep"), rrUnit("fcFrac"), rrUnit("fimp"), rrUnit("rfac")
	coeff, sq, thres := rrNonNeg("coeff"), rrNonNeg("sq"), rrNonNeg("thres")
	smax := vsym.Float64("smax")
	vsym.Assume(smax > 0)
	var sms, gw, ts float64
	if !fromZero {
		sms, gw = vsym.Float64("sms"), vsym.Float64("gw")
		vsym.Assume(sms >= 0 && sms <= smax && gw >= 0)
		ts = vsym.Float64("ts")
	}
	ro, qf, bf, st := rrOut(T), rrOut(T), rrOut(T), rrOut(T)
	sms2, gw2, ts2 := surm(rain, pet, sms, gw, ts, bfac, coeff, dseep, fcFrac, fimp, rfac, smax, sq, thres, ro, qf, bf, st)
	vsym.Reach("surm")
	fperv := 1 - fimp
	sumRain, sumRunoff := 0.0, 0.0
	for t := 0; t < T; t++ {
		vsym.Assert(ro.Get1(t) >= 0 && qf.Get1(t) >= 0 && bf.Get1(t) >= 0, "outputs-nonnegative")
		vsym.Assert(st.Get1(t) >= 0, "reported-store-nonnegative")
		vsym.AssertNear(ro.Get1(t), qf.Get1(t)+bf.Get1(t), rrAbs, rrRel, "runoff-is-quick-plus-base")
		sumRain += rain.Get1(t)
		sumRunoff += ro.Get1(t)
	}
	vsym.Assert(sms2 >= 0, "soil-store-nonnegative")
	vsym.Assert(sms2 <= smax, "soil-store-within-capacity")
	vsym.Assert(gw2 >= 0, "groundwater-nonnegative")
	vsym.AssertNear(ts2, sms2+gw2, rrAbs, rrRel, "total-store-is-sum")
	if T == 1 || vsym.Thorough() {
		vsym.AssertLe(sumRunoff+fperv*(sms2+gw2), sumRain+fperv*(sms+gw), rrAbs, rrRel, "no-water-created")
	}
}

// H_C10_surm_step: one timestep of Surm from an arbitrary state with 0<=sms<=smax, gw>=0;
// fractions in [0,1], coeff/sq/thres >= 0, smax > 0.
//vsym:prop=C10 tier=quick ints=int floats=real timeout=120
func H_C10_surm_step() { c10surm(1, false) }

// H_C10_surm_two: two timesteps from the zero state.
//vsym:prop=C10 tier=quick ints=int floats=real timeout=120
func H_C10_surm_two() { c10surm(2, true) }
