package rr

import (
	"github.com/flowmatters/openwater-core/data"
	"github.com/flowmatters/openwater-core/zzverif/vsym"
)

// symbolic non-negative series of length T
func rrSeries(tag string, T int) data.ND1Float64 {
	a := data.NewArray1DFloat64(T)
	for i := 0; i < T; i++ {
		v := vsym.Float64(tag)
		vsym.Assume(v >= 0)
		a.Set1(i, v)
	}
	return a
}

func rrOut(T int) data.ND1Float64 { return data.NewArray1DFloat64(T) }

func rrUnit(tag string) float64 {
	v := vsym.Float64(tag)
	vsym.Assume(v >= 0 && v <= 1)
	return v
}

func rrNonNeg(tag string) float64 {
	v := vsym.Float64(tag)
	vsym.Assume(v >= 0)
	return v
}

const rrAbs = 1e-9
const rrRel = 1e-9

func rrOne(v float64) data.ND1Float64 {
	a := data.NewArray1DFloat64(1)
	a.Set1(0, v)
	return a
}
