package rr

import (
	"math"

	"github.com/flowmatters/openwater-core/zzverif/vsym"
)

// c10gr4j: one day of GR4J from an arbitrary state inside the invariant 0<=S<=x1, R>=0,
// buffers >= 0 (x4 fixed per harness, everything else symbolic).
func c10gr4j(x4 float64, closure bool) {
	n1, n2 := int(math.Ceil(x4)), int(math.Ceil(2*x4))
	P, E := rrNonNeg("rain"), rrNonNeg("pet")
	x1, x2, x3 := vsym.Float64("x1"), vsym.Float64("x2"), vsym.Float64("x3")
	vsym.Assume(x1 >= 1 && x1 <= 1500 && x2 >= -10 && x2 <= 5 && x3 >= 1 && x3 <= 500)
	if closure {
		vsym.Assume(x2 == 0 && E == 0)
	}
	S, R := vsym.Float64("S"), vsym.Float64("R")
	vsym.Assume(S >= 0 && S <= x1 && R >= 0)
	q9, q1 := make([]float64, n1), make([]float64, n2)
	sum0 := S + R
	for i := range q9 {
		q9[i] = rrNonNeg("q9")
		sum0 += q9[i]
	}
	for i := range q1 {
		q1[i] = rrNonNeg("q1")
		sum0 += q1[i]
	}
	out := rrOut(1)
	S2, R2, _, _, q1o, q9o := gr4j(rrOne(P), rrOne(E), S, R, n1, n2, q1, q9, x1, x2, x3, x4, out)
	vsym.Reach("stepped")
	sum1 := S2 + R2
	for i := 0; i < n1; i++ {
		vsym.Assert(q9o[i] >= 0, "uh-buffers-nonnegative")
		sum1 += q9o[i]
	}
	for i := 0; i < n2; i++ {
		vsym.Assert(q1o[i] >= 0, "uh-buffers-nonnegative")
		sum1 += q1o[i]
	}
	vsym.Assert(out.Get1(0) >= 0, "runoff-nonnegative")
	vsym.Assert(S2 >= 0 && S2 <= x1, "production-store-within-0-capacity")
	vsym.Assert(R2 >= 0, "routing-store-nonnegative")
	if closure {
		vsym.AssertNear(P, out.Get1(0)+(sum1-sum0), 1e-9, 1e-9, "balance-closes-exactly-without-exchange-and-pet")
	} else if x2 <= 0 {
		vsym.AssertLe(out.Get1(0)+sum1, P+sum0, 1e-9, 1e-9, "no-water-created-for-nonpositive-exchange")
	}
}

// H_C10_gr4j_x4_0p75: store bounds, non-negativity and step budget for x4 = 0.75.
//vsym:prop=C10 tier=thorough ints=int floats=real timeout=60 wall=900
func H_C10_gr4j_x4_0p75() { c10gr4j(0.75, false) }

// H_C10_gr4j_x4_1p5: same for x4 = 1.5.
//vsym:prop=C10 tier=thorough ints=int floats=real timeout=60 wall=900
func H_C10_gr4j_x4_1p5() { c10gr4j(1.5, false) }

// H_C10_gr4j_x4_2p5: same for x4 = 2.5.
//vsym:prop=C10 tier=thorough ints=int floats=real timeout=60 wall=900
func H_C10_gr4j_x4_2p5() { c10gr4j(2.5, false) }

// H_C10_gr4j_closure_x4_1p5: x2 = 0 and PET = 0: rainfall = runoff + change in production,
// routing and unit-hydrograph stores, exactly (x4 = 1.5).
//vsym:prop=C10 tier=thorough ints=int floats=real timeout=60 wall=900
func H_C10_gr4j_closure_x4_1p5() { c10gr4j(1.5, true) }

// H_C10_gr4j_closure_x4_3p5: closure for x4 = 3.5.
//vsym:prop=C10 tier=thorough ints=int floats=real timeout=60 wall=900
func H_C10_gr4j_closure_x4_3p5() { c10gr4j(3.5, true) }

// H_C10_gr4j_x4_4: bounds and budget for x4 = 4.
//vsym:prop=C10 tier=thorough ints=int floats=real timeout=60 wall=900
func H_C10_gr4j_x4_4() { c10gr4j(4, false) }

// c10gr4jHunt: the same one-day obligations as c10gr4j, but as counterexample searches (z3 does
// not decide them in the time limit): 30 s solver search, then native evaluation at ~300
// pseudo-random points inside the stated ranges.  Can only produce violations.
func c10gr4jHunt(x4 float64) {
	n1, n2 := int(math.Ceil(x4)), int(math.Ceil(2*x4))
	P := c10in("rain", 0, 200)
	x1, x3 := c10in("x1", 1, 1500), c10in("x3", 1, 500)
	S, R := c10in("S", 0, 1500), c10in("R", 0, 500)
	vsym.Assume(S <= x1)
	q9, q1 := make([]float64, n1), make([]float64, n2)
	sum0 := S + R
	for i := range q9 {
		q9[i] = c10in("q9", 0, 50)
		sum0 += q9[i]
	}
	for i := range q1 {
		q1[i] = c10in("q1", 0, 50)
		sum0 += q1[i]
	}
	out := rrOut(2)
	rain := rrOut(2)
	rain.Set1(0, P)
	// two days, zero exchange, zero PET: the second day has no rain
	S2, R2, _, _, q1o, q9o := gr4j(rain, rrOut(2), S, R, n1, n2, q1, q9, x1, 0, x3, x4, out)
	vsym.Reach("stepped")
	sum1 := S2 + R2
	for i := 0; i < n1; i++ {
		sum1 += q9o[i]
	}
	for i := 0; i < n2; i++ {
		sum1 += q1o[i]
	}
	vsym.Hunt(out.Get1(0) >= 0 && out.Get1(1) >= 0, "runoff-nonnegative")
	vsym.Hunt(S2 >= 0 && S2 <= x1 && R2 >= 0, "stores-within-bounds")
	vsym.HuntNear(P, out.Get1(0)+out.Get1(1)+(sum1-sum0), 1e-6, 1e-9, "balance-closes-exactly-without-exchange-and-pet")
}

// H_C10_gr4j_hunt_x4_0p75: two days of GR4J (x2 = 0, PET = 0, rain on day one) for x4 = 0.75
// (single-ordinate UH1): non-negativity, store bounds and exact closure as counterexample searches.
//vsym:prop=C10 tier=quick ints=int floats=real timeout=30
func H_C10_gr4j_hunt_x4_0p75() { c10gr4jHunt(0.75) }

// H_C10_gr4j_hunt_x4_2p5: same for x4 = 2.5.
//vsym:prop=C10 tier=quick ints=int floats=real timeout=30
func H_C10_gr4j_hunt_x4_2p5() { c10gr4jHunt(2.5) }

// c10gr4jHuntX: two days with a symbolic exchange coefficient x2 in [-10,5] and symbolic PET,
// from an arbitrary state with S <= x1, R <= x3: runoff >= 0 on both days, stores within bounds,
// and for x2 <= 0 no water created - as counterexample searches + native probing (corner points
// such as x2 = -10, x3 = 1, R = x3 included).
func c10gr4jHuntX(x4 float64) {
	n1, n2 := int(math.Ceil(x4)), int(math.Ceil(2*x4))
	P, E := c10in("rain", 0, 200), c10in("pet", 0, 20)
	x1, x2, x3 := c10in("x1", 1, 1500), c10in("x2", -10, 5), c10in("x3", 1, 500)
	S, R := c10in("S", 0, 1500), c10in("R", 0, 500)
	vsym.Assume(S <= x1)
	vsym.Assume(R <= x3)
	q9, q1 := make([]float64, n1), make([]float64, n2)
	sum0 := S + R
	for i := range q9 {
		q9[i] = c10in("q9", 0, 50)
		sum0 += q9[i]
	}
	for i := range q1 {
		q1[i] = c10in("q1", 0, 50)
		sum0 += q1[i]
	}
	out, rain, pet := rrOut(2), rrOut(2), rrOut(2)
	rain.Set1(0, P)
	pet.Set1(0, E)
	pet.Set1(1, E)
	S2, R2, _, _, q1o, q9o := gr4j(rain, pet, S, R, n1, n2, q1, q9, x1, x2, x3, x4, out)
	vsym.Reach("stepped")
	sum1 := S2 + R2
	for i := 0; i < n1; i++ {
		sum1 += q9o[i]
	}
	for i := 0; i < n2; i++ {
		sum1 += q1o[i]
	}
	vsym.Hunt(out.Get1(0) >= 0 && out.Get1(1) >= 0, "runoff-nonnegative")
	vsym.Hunt(S2 >= 0 && S2 <= x1 && R2 >= 0, "stores-within-bounds")
	if x2 <= 0 {
		vsym.Hunt(out.Get1(0)+out.Get1(1)+sum1 <= P+sum0+1e-6, "no-water-created-for-nonpositive-exchange")
	}
}

// H_C10_gr4j_huntx_x4_0p75: x4 = 0.75.
//vsym:prop=C10 tier=quick ints=int floats=real timeout=30
func H_C10_gr4j_huntx_x4_0p75() { c10gr4jHuntX(0.75) }

// H_C10_gr4j_huntx_x4_2p5: x4 = 2.5.
//vsym:prop=C10 tier=quick ints=int floats=real timeout=30
func H_C10_gr4j_huntx_x4_2p5() { c10gr4jHuntX(2.5) }
