package models

import (
	"github.com/flowmatters/openwater-core/data"
	"github.com/flowmatters/openwater-core/sim"
	"github.com/flowmatters/openwater-core/zzverif/vsym"
)

// wrDims: table dimensions of a model (Storage: nLVA, RatingCurvePartition: nPts); the row of the
// parameter array that holds each dimension's per-cell length
type wrSetup struct {
	m        sim.TimeSteppingModel
	desc     sim.ModelDescription
	rows     int   // rows of the parameter array
	dimRow   []int // parameter row holding dimension d
	dimLen   []int // allocated (max) length of dimension d
	rowOfPar []int // first row of parameter p
	sizeOf   []int // rows of parameter p
}

func wrNew(name string, maxTable int) *wrSetup {
	w := &wrSetup{}
	w.m = sim.Catalog[name]()
	w.desc = w.m.Description()
	nd := len(w.desc.Dimensions)
	w.dimRow = make([]int, nd)
	w.dimLen = make([]int, nd)
	for d := 0; d < nd; d++ {
		w.dimLen[d] = maxTable
	}
	row := 0
	for _, p := range w.desc.Parameters {
		size := 1
		for _, dn := range p.Dimensions {
			for d, n := range w.desc.Dimensions {
				if n == dn {
					size *= w.dimLen[d]
				}
			}
		}
		for d, n := range w.desc.Dimensions {
			if n == p.Name {
				w.dimRow[d] = row
			}
		}
		w.rowOfPar = append(w.rowOfPar, row)
		w.sizeOf = append(w.sizeOf, size)
		row += size
	}
	w.rows = row
	return w
}

// symbolic parameter array [rows, nSets]; dimension rows hold concrete table lengths
// (tableLen[set]) so that FindDimensions / per-cell decoding is exercised
func (w *wrSetup) params(nSets int, tableLen []int) data.ND2Float64 {
	p := data.NewArray2DFloat64(w.rows, nSets)
	for r := 0; r < w.rows; r++ {
		for c := 0; c < nSets; c++ {
			isDim := false
			for _, dr := range w.dimRow {
				if len(w.desc.Dimensions) > 0 && dr == r {
					isDim = true
				}
			}
			if isDim {
				p.Set2(r, c, float64(tableLen[c%len(tableLen)]))
			} else {
				p.Set2(r, c, vsym.Float64("param"))
			}
		}
	}
	return p
}

// wrConstrain: value ranges for the few models whose kernels loop on parameter/input values
// (stated bounds; the wiring under test does not depend on them).  Storage gets two different
// concrete tables for its two parameter sets.
func wrConstrain(name string, w *wrSetup, p data.ND2Float64, nSets int) {
	rng := func(r, c int, lo, hi float64) {
		v := p.Get2(r, c)
		vsym.Assume(v >= lo && v <= hi)
	}
	for c := 0; c < nSets; c++ {
		switch name {
		case "GR4J":
			rng(0, c, 1, 1500)
			rng(2, c, 1, 500)
			p.Set2(3, c, []float64{0.75, 1.5, 2.5}[c%3]) // unit hydrograph lengths fixed per parameter set
		case "Lag":
			p.Set2(0, c, []float64{1, 2, 0}[c%3]) // lag (steps) fixed per parameter set
		case "Sacramento":
			for r := 0; r < w.rows; r++ {
				rng(r, c, 0.25, 0.5)
			}
		case "StorageRouting":
			p.Set2(0, c, 0) // inflow bias 0
			p.Set2(2, c, 1) // linear storage-discharge relation
			rng(1, c, 1, 1000000)
			rng(3, c, 0, 1000000)
			rng(4, c, 0, 1000000)
			rng(5, c, 1, 86400)
		case "Storage":
			p.Set2(0, c, 86400)
			n := int(0)
			for r := 2; r < w.rows; r++ {
				// levels, volumes, areas, minRelease, maxRelease: 3 rows each
				k := (r - 2) % 3
				which := (r - 2) / 3
				base := []float64{10, 1000000, 100000, 1, 20}[which]
				p.Set2(r, c, base*float64(k)*(1+0.5*float64(c)))
				n++
			}
		}
	}
}

// wrDocumentedRanges: parameters with a documented range (OW-SPEC '[lo,hi]') are taken inside it
// (e.g. the time step in [1,86400] s); undocumented ones stay unconstrained.
func wrDocumentedRanges(w *wrSetup, p data.ND2Float64, nSets int) {
	for i, pd := range w.desc.Parameters {
		if !(pd.Range[0] < pd.Range[1]) || len(pd.Dimensions) > 0 {
			continue
		}
		isDim := false
		for d := range w.desc.Dimensions {
			if w.dimRow[d] == w.rowOfPar[i] {
				isDim = true
			}
		}
		if isDim {
			continue
		}
		for c := 0; c < nSets; c++ {
			v := p.Get2(w.rowOfPar[i], c)
			vsym.Assume(v >= pd.Range[0] && v <= pd.Range[1])
		}
	}
}

// wrNonNegativeUndocumented: parameters without a documented range are taken >= 0
func wrNonNegativeUndocumented(w *wrSetup, p data.ND2Float64, nSets int) {
	for i, pd := range w.desc.Parameters {
		if pd.Range[0] < pd.Range[1] {
			continue
		}
		for r := w.rowOfPar[i]; r < w.rowOfPar[i]+w.sizeOf[i]; r++ {
			for c := 0; c < nSets; c++ {
				v := p.Get2(r, c)
				vsym.Assume(v >= 0 && v <= 1000000)
			}
		}
	}
}

func wrConstrainData(name string, inputs data.ND3Float64, states data.ND2Float64) {
	small := name == "Sacramento" || name == "Storage" || name == "StorageRouting" || name == "ClimateVariables"
	if !small {
		return
	}
	for b := 0; b < inputs.Len(0); b++ {
		for i := 0; i < inputs.Len(1); i++ {
			for t := 0; t < inputs.Len(2); t++ {
				v := inputs.Get3(b, i, t)
				vsym.Assume(v >= 0 && v <= 1)
			}
		}
	}
	for c := 0; c < states.Len(0); c++ {
		for s := 0; s < states.Len(1); s++ {
			v := states.Get2(c, s)
			vsym.Assume(v >= 0 && v <= 0.25)
		}
	}
}

func wrCopy2(a data.ND2Float64) data.ND2Float64 {
	r := data.NewArray2DFloat64(a.Len(0), a.Len(1))
	for i := 0; i < a.Len(0); i++ {
		for j := 0; j < a.Len(1); j++ {
			r.Set2(i, j, a.Get2(i, j))
		}
	}
	return r
}

func wrCopy3(a data.ND3Float64) data.ND3Float64 {
	r := data.NewArray3DFloat64(a.Len(0), a.Len(1), a.Len(2))
	for i := 0; i < a.Len(0); i++ {
		for j := 0; j < a.Len(1); j++ {
			for k := 0; k < a.Len(2); k++ {
				r.Set3(i, j, k, a.Get3(i, j, k))
			}
		}
	}
	return r
}

// c04vectorised: N cells in one Run versus each cell alone on a fresh model object.
// wrHeavy: kernels the executor cannot carry symbolically within the budget (Sacramento: nested
// data-dependent increment loops; Storage: adaptive sub-stepping; ClimateVariables: 40-step
// bisection over log/exp).  Their wrappers are instances of the same template as the other 38
// and are NOT exercised with their own kernel (stated in DESIGN §5).
// wrHeavyNoSummary: for harnesses whose property depends on WHAT the kernel computes from which
// timestep (causality, hot start): the two heavy kernels are skipped, not summarised.
func wrHeavyNoSummary(name string) bool {
	if name == "Sacramento" || name == "Storage" {
		return true
	}
	return wrHeavy(name)
}

func wrHeavy(name string) bool {
	if name == "ClimateVariables" {
		// the scalar helpers of the climate kernel (40-step bisection, Goff-Gratch, Magnus) are
		// replaced by arbitrary functions of their arguments: wrapper-level properties (cell
		// independence, footprints, purity, back-end equality) hold for any such functions; the
		// helpers themselves are the subject of C20
		vsym.Summarise("uf:calcWetBulb")
		vsym.Summarise("uf:calcVaporPressure")
		vsym.Summarise("uf:calcDewPoint")
		return false
	}
	switch name {
	case "Sacramento":
		// nested data-dependent increment loops: the kernel is replaced by a summary that reads all
		// its input series and scalars and writes all its 5 output series (engine/havoc.go); the
		// wrapper - which views it hands out, where it writes states back - is what is exercised
		vsym.Summarise("kernel:sacramento:5")
		return false
	case "Storage":
		// adaptive sub-stepping: same treatment (4 output series)
		vsym.Summarise("kernel:storageWaterBalance:4")
		return false
	}
	return false
}

// per-cell initial states through the model's own initialiser on a single-cell model, padded
// into a rectangular array (what a careful caller of variable-length-state models does)
func wrStates(name string, w *wrSetup, params data.ND2Float64, N, nSets int) data.ND2Float64 {
	rows := make([]data.ND2Float64, N)
	maxLen := 0
	for c := 0; c < N; c++ {
		w1 := wrNew(name, 3)
		p1 := data.NewArray2DFloat64(w.rows, 1)
		for r := 0; r < w.rows; r++ {
			p1.Set2(r, 0, params.Get2(r, c%nSets))
		}
		if len(w1.desc.Dimensions) > 0 {
			w1.m.InitialiseDimensions(w.m.FindDimensions(params))
		}
		w1.m.ApplyParameters(p1)
		rows[c] = w1.m.InitialiseStates(1)
		if rows[c].Len(1) > maxLen {
			maxLen = rows[c].Len(1)
		}
	}
	st := data.NewArray2DFloat64(N, maxLen)
	for c := 0; c < N; c++ {
		for s := 0; s < rows[c].Len(1); s++ {
			st.Set2(c, s, rows[c].Get2(0, s))
		}
	}
	return st
}

func c04vectorised(name string, N, nSets, nBlocks, T int, padCells, padSteps int) {
	if wrHeavy(name) {
		vsym.Note("kernel of " + name + " is outside the reach of the executor within the budget: this wrapper is not exercised with its own kernel")
		vsym.Reach("skipped-heavy-kernel")
		return
	}
	vsym.Summarise("NoKernelImplicit")
	tl := []int{2, 3}
	w := wrNew(name, 3)
	nI, nO := len(w.desc.Inputs), len(w.desc.Outputs)
	vsym.Summarise("FindRoot")
	params := w.params(nSets, tl)
	wrConstrain(name, w, params, nSets)
	if len(w.desc.Dimensions) > 0 {
		w.m.InitialiseDimensions(w.m.FindDimensions(params))
	}
	w.m.ApplyParameters(params)
	inputs := data.NewArray3DFloat64(nBlocks, nI, T)
	for b := 0; b < nBlocks; b++ {
		for i := 0; i < nI; i++ {
			for t := 0; t < T; t++ {
				inputs.Set3(b, i, t, vsym.Float64("input"))
			}
		}
	}
	states := wrStates(name, w, params, N, nSets)
	nS := states.Len(1)
	// arbitrary initial states, except slots the model itself initialises to a structural value
	// (GR4J stores its unit hydrograph lengths in the state row)
	structural := name == "GR4J"
	for c := 0; c < N; c++ {
		for s := 0; s < nS; s++ {
			if structural && (s == 2 || s == 3) {
				continue
			}
			if structural && s >= 4+int(states.Get2(c, 2))+int(states.Get2(c, 3)) {
				continue // padding beyond this cell's own state vector
			}
			states.Set2(c, s, vsym.Float64("state"))
		}
	}
	outputs := data.NewArray3DFloat64(N+padCells, nO, T+padSteps)
	for c := 0; c < N+padCells; c++ {
		for o := 0; o < nO; o++ {
			for t := 0; t < T+padSteps; t++ {
				outputs.Set3(c, o, t, vsym.Float64("outinit"))
			}
		}
	}
	wrConstrainData(name, inputs, states)
	params0, inputs0, states0, outputs0 := wrCopy2(params), wrCopy3(inputs), wrCopy2(states), wrCopy3(outputs)
	vsym.Reach("before-run")
	runIn := inputs
	runOut := outputs
	if (padCells > 0 || padSteps > 0) && !(padCells+padSteps == 1) {
		// a larger, caller-owned output array: the run gets the view of the needed size
		runOut = outputs.Slice([]int{0, 0, 0}, []int{N, nO, T}, nil).(data.ND3Float64)
	}
	// padding in exactly one dimension: the larger array itself is handed to Run ("exactly the needed size or larger")
	w.m.Run(runIn, states, runOut)
	vsym.Reach("after-run")
	// inputs and parameters are untouched: their shape descriptors ...
	vsym.Assert(runIn.Len(0) == nBlocks && runIn.Len(1) == nI && runIn.Len(2) == T, "input-array-shape-unmodified")
	vsym.Assert(inputs.Len(0) == nBlocks && inputs.Len(1) == nI && inputs.Len(2) == T, "input-array-shape-unmodified")
	vsym.Assert(params.Len(0) == w.rows && params.Len(1) == nSets, "parameter-array-shape-unmodified")
	vsym.Assert(states.Len(0) == N && states.Len(1) == nS, "state-array-shape-unmodified")
	// ... and their values
	for b := 0; b < nBlocks; b++ {
		for i := 0; i < nI; i++ {
			for t := 0; t < T; t++ {
				vsym.Assert(inputs.Get3(b, i, t) == inputs0.Get3(b, i, t), "inputs-unmodified")
			}
		}
	}
	for r := 0; r < w.rows; r++ {
		for c := 0; c < nSets; c++ {
			vsym.Assert(params.Get2(r, c) == params0.Get2(r, c), "parameters-unmodified")
		}
	}
	// output cells outside the rows/timesteps of the run keep their value
	for c := 0; c < N+padCells; c++ {
		for o := 0; o < nO; o++ {
			for t := 0; t < T+padSteps; t++ {
				if c >= N || t >= T {
					vsym.Assert(outputs.Get3(c, o, t) == outputs0.Get3(c, o, t), "cells-outside-the-run-untouched")
				}
			}
		}
	}
	wrAssertCellsEqualSingle(name, w, params0, inputs0, states0, outputs0, states, outputs, N, nSets, nBlocks, T)
}

// wrAssertCellsEqualSingle: every cell of a vectorised run equals the same model run on that cell
// alone (fresh model object, the cell's parameter column, input block and state row).
func wrAssertCellsEqualSingle(name string, w *wrSetup, params0 data.ND2Float64, inputs0 data.ND3Float64, states0 data.ND2Float64, outputs0 data.ND3Float64,
	states data.ND2Float64, outputs data.ND3Float64, N, nSets, nBlocks, T int) {
	nI, nO := len(w.desc.Inputs), len(w.desc.Outputs)
	nS := states.Len(1)
	// every cell equals the same model run on that cell alone
	for c := 0; c < N; c++ {
		w1 := wrNew(name, 3)
		p1 := data.NewArray2DFloat64(w.rows, 1)
		for r := 0; r < w.rows; r++ {
			p1.Set2(r, 0, params0.Get2(r, c%nSets))
		}
		if len(w1.desc.Dimensions) > 0 {
			// the single-cell reference allocates tables of the vectorised run's size so that the
			// parameter rows line up; the cell's own length still comes from its dimension row
			w1.m.InitialiseDimensions(w.m.FindDimensions(params0))
		}
		w1.m.ApplyParameters(p1)
		i1 := data.NewArray3DFloat64(1, nI, T)
		for i := 0; i < nI; i++ {
			for t := 0; t < T; t++ {
				i1.Set3(0, i, t, inputs0.Get3(c%nBlocks, i, t))
			}
		}
		s1 := data.NewArray2DFloat64(1, nS)
		for s := 0; s < nS; s++ {
			s1.Set2(0, s, states0.Get2(c, s))
		}
		o1 := data.NewArray3DFloat64(1, nO, T)
		for o := 0; o < nO; o++ {
			for t := 0; t < T; t++ {
				o1.Set3(0, o, t, outputs0.Get3(c, o, t))
			}
		}
		w1.m.Run(i1, s1, o1)
		for o := 0; o < nO; o++ {
			for t := 0; t < T; t++ {
				vsym.Assert(outputs.Get3(c, o, t) == o1.Get3(0, o, t), "cell-outputs-equal-single-cell-run")
			}
		}
		for s := 0; s < nS; s++ {
			vsym.Assert(states.Get2(c, s) == s1.Get2(0, s), "cell-states-equal-single-cell-run")
		}
	}
}
