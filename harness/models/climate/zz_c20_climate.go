package climate

import (
	"math"

	"github.com/flowmatters/openwater-core/data"
	"github.com/flowmatters/openwater-core/zzverif/vsym"
)

// C20.  The transcendental functions are contracts (sign, strict monotonicity, tangent-line and
// pairwise concavity bounds, a quarter-step grid for 10^e), never numeric values, so what is
// established follows from the *structure* of the kernel for every function satisfying those
// contracts: the bisection bookkeeping, the ordering of the outputs, positivity and strict
// monotonicity of the vapour pressure, unreachability of the NaN return, monotonicity of the dew
// point in humidity.

func c20between(x, a, b float64) bool {
	return vsym.Or(vsym.And(a <= x, x <= b), vsym.And(b <= x, x <= a))
}

// H_C20_wetbulb_between: calcWetBulb from arbitrary arguments (dry bulb and dew point in either
// order, any enthalpy target, any pressure) with calcVaporPressure replaced by an arbitrary
// function, i.e. for every outcome of each of the enthalpy comparisons: the result lies between
// the dew point and the dry bulb.  |dry - dew| <= 300 bounds the trip count at 22 halvings;
// unwind 24 checks that bound.
//vsym:prop=C20 tier=quick ints=int floats=real unwind=24 timeout=60
func H_C20_wetbulb_between() {
	vsym.Summarise("uf:calcVaporPressure")
	dry, dew := vsym.Float64("dry"), vsym.Float64("dew")
	h, pa := vsym.Float64("enthalpy"), vsym.Float64("pa")
	vsym.Assume(dry >= -60 && dry <= 60 && dew >= -240 && dew <= 100)
	wb := calcWetBulb(dry, dew, h, pa)
	vsym.Reach("bisected")
	vsym.Assert(c20between(wb, dew, dry), "wet-bulb-between-dew-point-and-dry-bulb")
}

// H_C20_vp_positive: Goff-Gratch saturation vapour pressure over the meteorological range is
// positive; from the contracts it also stays below 18.1 kPa (the lemma that keeps the humidity
// ratio's denominator away from zero below).
//vsym:prop=C20 tier=quick ints=int floats=real timeout=60
func H_C20_vp_positive() {
	t := vsym.Float64("t")
	vsym.Assume(t >= -68 && t <= 56)
	vp := calcVaporPressure(t)
	vsym.Reach("vp")
	vsym.Assert(vp > 0, "saturation-vapour-pressure-positive")
	vsym.Assert(vp <= 18.1, "saturation-vapour-pressure-below-18.1kPa")
}

// H_C20_pressure_floor: barometric pressure up to 10 km stays above 22 kPa, hence above any
// saturation vapour pressure of the range (finite humidity ratio).
//vsym:prop=C20 tier=quick ints=int floats=real timeout=60
func H_C20_pressure_floor() {
	el := vsym.Float64("elevation")
	vsym.Assume(el >= 0 && el <= 10000)
	pa := barometricPressure(el)
	vsym.Reach("pa")
	vsym.Assert(pa >= 22 && pa <= 101.3, "barometric-pressure-in-22..101.3kPa")
}

// H_C20_dew_finite_monotone: the dew point is a number (the NaN return is unreachable, the
// Magnus denominator is positive) and rises strictly with humidity at a fixed temperature.
//vsym:prop=C20 tier=quick ints=int floats=real timeout=120
func H_C20_dew_finite_monotone() {
	vsym.Summarise("NaNIsFailure")
	t, h1, h2 := vsym.Float64("t"), vsym.Float64("h1"), vsym.Float64("h2")
	vsym.Assume(t >= -40 && t <= 55)
	vsym.Assume(h1 > 0 && h1 < h2 && h2 <= 100)
	d1 := calcDewPoint(t, h1)
	d2 := calcDewPoint(t, h2)
	vsym.Reach("dew")
	vsym.Assert(!math.IsNaN(d1) && !math.IsNaN(d2), "no-NaN-constructed")
	vsym.Assert(d1 < d2, "dew-point-rises-with-humidity")
}

// H_C20_dew_range: the dew point of the meteorological range lies in (-237.3, 100] (the Magnus
// pole is never approached); the kernel harness below relies on exactly this range.
//vsym:prop=C20 tier=quick ints=int floats=real timeout=120
func H_C20_dew_range() {
	vsym.Summarise("NaNIsFailure")
	t, h := vsym.Float64("t"), vsym.Float64("h")
	vsym.Assume(t >= -40 && t <= 55 && h > 0 && h <= 100)
	d := calcDewPoint(t, h)
	vsym.Reach("dew")
	vsym.Assert(d > -237.3 && d <= 100, "dew-point-in-(-237.3,100]")
}

// c20kernel: the whole kernel over T time steps through its real signature, with
// calcVaporPressure and calcDewPoint replaced by arbitrary functions (their own facts are the
// harnesses above; the dew-point range proved there is assumed here): every output of a step is
// the corresponding function of that step's inputs alone, the reported depression is dry bulb
// minus wet bulb exactly, the wet bulb lies between dew point and dry bulb, inputs are unchanged.
func c20kernel(T int) {
	vsym.Summarise("uf:calcVaporPressure")
	vsym.Summarise("uf:calcDewPoint")
	dry, hum := data.NewArray1DFloat64(T), data.NewArray1DFloat64(T)
	tv, hv := make([]float64, T), make([]float64, T)
	for i := 0; i < T; i++ {
		tv[i], hv[i] = vsym.Float64("dryBulb"), vsym.Float64("humidity")
		vsym.Assume(tv[i] >= -40 && tv[i] <= 55 && hv[i] > 0 && hv[i] <= 100)
		d := calcDewPoint(tv[i], hv[i])
		vsym.Assume(d > -237.3 && d <= 100) // H_C20_dew_range
		dry.Set1(i, tv[i])
		hum.Set1(i, hv[i])
	}
	el := vsym.Float64("elevation")
	vsym.Assume(el >= 0 && el <= 10000)
	vp, dew, wb, dt := data.NewArray1DFloat64(T), data.NewArray1DFloat64(T), data.NewArray1DFloat64(T), data.NewArray1DFloat64(T)
	climateVariables(dry, hum, el, vp, dew, wb, dt)
	vsym.Reach("ran")
	pa := barometricPressure(el)
	for i := 0; i < T; i++ {
		vsym.Assert(vp.Get1(i) == calcVaporPressure(tv[i]), "vapour-pressure-output-is-saturation-pressure-of-this-step")
		vsym.Assert(dew.Get1(i) == calcDewPoint(tv[i], hv[i]), "dew-point-output-is-dew-point-of-this-step")
		e := calcEnthalpy(tv[i], calcHumidityRatioActual(tv[i], hv[i], pa))
		vsym.Assert(wb.Get1(i) == calcWetBulb(tv[i], dew.Get1(i), e, pa), "wet-bulb-output-is-bisection-of-this-step")
		vsym.Assert(dt.Get1(i) == tv[i]-wb.Get1(i), "depression-equals-dry-bulb-minus-wet-bulb")
		vsym.Assert(c20between(wb.Get1(i), dew.Get1(i), tv[i]), "wet-bulb-between-dew-point-and-dry-bulb")
		vsym.Assert(dry.Get1(i) == tv[i] && hum.Get1(i) == hv[i], "inputs-unchanged")
	}
}

// H_C20_kernel_1: one time step.
//vsym:prop=C20 tier=quick ints=int floats=real unwind=24 timeout=120 wall=600
func H_C20_kernel_1() { c20kernel(1) }

// H_C20_kernel_2: two time steps (a step does not depend on the other).
//vsym:prop=C20 tier=quick ints=int floats=real unwind=24 timeout=120 wall=1200
func H_C20_kernel_2() { c20kernel(2) }

// H_C20_kernel_3: three time steps.
//vsym:prop=C20 tier=thorough ints=int floats=real unwind=24 timeout=120 wall=3000
func H_C20_kernel_3() { c20kernel(3) }

// c20increasing: saturation vapour pressure is strictly increasing within one branch of the
// Goff-Gratch formula (both temperatures above, or both at or below, freezing).  From the
// contracts: log10 is concave (pairwise tangent bound), 10^e increases with e; the exponent's
// two power terms move the right way by sign, and a1 (resp. b1) dominates a2/(z ln 10) (resp.
// b3/(z1 z2)) over the range.
func c20increasing(above bool) {
	t1, t2 := vsym.Float64("t1"), vsym.Float64("t2")
	if above {
		vsym.Assume(t1 > 0 && t1 < t2 && t2 <= 56)
	} else {
		vsym.Assume(t1 >= -68 && t1 < t2 && t2 <= 0)
	}
	v1, v2 := calcVaporPressure(t1), calcVaporPressure(t2)
	vsym.Reach("two-temperatures")
	vsym.Assert(v1 < v2, "saturation-vapour-pressure-strictly-increasing")
}

// H_C20_vp_increasing_above_freezing: 0 < t1 < t2 <= 56.
//vsym:prop=C20 tier=quick ints=int floats=real timeout=120
func H_C20_vp_increasing_above_freezing() { c20increasing(true) }

// H_C20_vp_increasing_below_freezing: -68 <= t1 < t2 <= 0.
//vsym:prop=C20 tier=quick ints=int floats=real timeout=120
func H_C20_vp_increasing_below_freezing() { c20increasing(false) }

// H_C20_vp_increasing_across_freezing: the two formulas meet in the right order: the value at
// 0 degC (ice formula) is below the value at +1e-6 degC (water formula) - two concrete library
// evaluations; with the two harnesses above this gives t1 <= 0 < 1e-6 <= t2  =>  vp(t1) < vp(t2).
// (Temperatures in (0, 1e-6) are the stated gap.)
//vsym:prop=C20 tier=quick ints=int floats=real timeout=60
func H_C20_vp_increasing_across_freezing() {
	vsym.Reach("concrete")
	vsym.Assert(calcVaporPressure(0) < calcVaporPressure(0.000001), "ice-formula-at-0-below-water-formula-just-above-0")
}
