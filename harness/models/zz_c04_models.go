package models

//vsym:formodels

// H_C04_vec_MODELNAME: 3 cells, 2 parameter sets, 2 input blocks (fewer than and coprime with the
// cell count: cyclic repetition), 2 timesteps, output array one cell and one timestep larger than
// needed; all values symbolic; real kernel.  Each cell equals the same model run on that cell alone
// on a fresh object; inputs/parameters unmodified; nothing outside the run's rows/timesteps written.
//vsym:prop=C04 tier=quick ints=int floats=real timeout=60 wall=240 cut=3 unwind=80
func H_C04_vec_MODELNAME() { c04vectorised("MODELNAME", 3, 2, 2, 2, 1, 1) }

// H_C04_full_MODELNAME: 2 cells with their own parameter sets and input blocks, 1 timestep, exact-size outputs.
//vsym:prop=C04 tier=quick ints=int floats=real timeout=60 wall=240 cut=3 unwind=80
func H_C04_full_MODELNAME() { c04vectorised("MODELNAME", 2, 2, 2, 1, 0, 0) }

// H_C04_mixa_MODELNAME: 4 cells, 3 parameter sets, 2 input blocks (set and block indices decouple:
// cell 2 uses set 2 but block 0, cell 3 set 0 but block 1), 1 timestep.
//vsym:prop=C04 tier=quick ints=int floats=real timeout=60 wall=240 cut=3 unwind=80
func H_C04_mixa_MODELNAME() { c04vectorised("MODELNAME", 4, 3, 2, 1, 1, 0) }

// H_C04_mixb_MODELNAME: 4 cells, 2 parameter sets, 3 input blocks, 2 timesteps; the output array has
// one timestep more than the inputs and is passed to Run as it is.
//vsym:prop=C04 tier=quick ints=int floats=real timeout=60 wall=240 cut=3 unwind=80
func H_C04_mixb_MODELNAME() { c04vectorised("MODELNAME", 4, 2, 3, 2, 0, 1) }

// H_C04_wide_MODELNAME: 4 cells, 3 parameter sets, 3 input blocks, 3 timesteps.
//vsym:prop=C04 tier=thorough ints=int floats=real timeout=120 wall=900 cut=3 unwind=80
func H_C04_wide_MODELNAME() { c04vectorised("MODELNAME", 4, 3, 3, 3, 1, 0) }
