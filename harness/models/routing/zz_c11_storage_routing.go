package routing

import (
	"math"

	"github.com/flowmatters/openwater-core/zzverif/vsym"
)

// c11sr: one timestep of storage routing (calcOutflow = the loop body of storageRouting) from an
// arbitrary previous storage/outflow/index-flow guess, inflow bias 0.  power: 0 => symbolic m in
// (0,1] (pow by contract), 1 => m = 1, 2 => m = 1/2 (exact).  fn.FindRoot is summarised by its
// contract (see C18), assuming the iteration budget suffices.
func c11sr(power int, withEvap bool) {
	vsym.Summarise("FindRoot")
	inflow, lateral := vsym.Float64("inflow"), vsym.Float64("lateral")
	prevQi, prevOut, prevS := vsym.Float64("prevQi"), vsym.Float64("prevOutflow"), vsym.Float64("prevStorage")
	k, area, dead, dt := vsym.Float64("k"), vsym.Float64("area"), vsym.Float64("deadStorage"), vsym.Float64("dt")
	vsym.Assume(inflow >= 0 && lateral >= 0 && prevS >= 0 && prevOut >= 0)
	vsym.Assume(k > 0 && area >= 0 && dead >= 0 && dt >= 1 && dt <= 86400)
	m := 1.0
	switch power {
	case 0:
		m = vsym.Float64("m")
		vsym.Assume(m > 0 && m <= 1)
	case 2:
		m = 0.5
	}
	evapRate := 0.0
	if withEvap {
		evapRate = vsym.Float64("netEvapRate")
	}
	// constants derived by storageRouting for bias 0
	Klimit, Qlimit, Koffset := k, 0.0, 0.0
	qi, outflow, storage := calcOutflow(0, inflow, lateral, 0.0, prevQi, prevOut, prevS, evapRate, area, dead, dt, m, k, Qlimit, Klimit, Koffset)
	_ = qi
	vsym.Reach("returned")
	vsym.Assert(outflow >= 0, "outflow-nonnegative")
	vsym.Assert(storage >= 0, "storage-nonnegative")
	// net evaporation flux as the model defines it: limited by the water available
	evapFlux := math.Min(math.Max(0, prevS)/dt+inflow, area*evapRate)
	tol := 2 * massBalanceLimit
	vsym.AssertNear(storage-prevS, (inflow+lateral-outflow-evapFlux)*dt, tol, 1e-9, "water-balance-closes")
	if power == 1 && outflow > 0 {
		vsym.AssertNear(storage, k*outflow+dead, tol*(1+k/dt), 1e-9, "storage-discharge-relation-linear")
		// carve-out of the known finding C11-flux-capped-exit: when the outflow is NOT limited by
		// the water available at the start of the step (stored volume/dt + upstream inflow - net
		// evaporation; the lateral inflow is excluded from that cap) the relation must hold
		cap := math.Max(0, prevS)/dt + inflow - evapFlux
		if outflow < cap {
			vsym.AssertNear(storage, k*outflow+dead, tol*(1+k/dt), 1e-9, "storage-discharge-relation-linear-uncapped")
		}
	}
}

// H_C11_sr_linear: m = 1, no net evaporation.
//vsym:prop=C11 tier=quick ints=int floats=real timeout=120
func H_C11_sr_linear() { c11sr(1, false) }

// H_C11_sr_linear_evap: m = 1 with arbitrary net evaporation rate (positive or negative).
//vsym:prop=C11 tier=quick ints=int floats=real timeout=120
func H_C11_sr_linear_evap() { c11sr(1, true) }

// H_C11_sr_sqrt: m = 1/2.
//vsym:prop=C11 tier=quick ints=int floats=real timeout=120
func H_C11_sr_sqrt() { c11sr(2, false) }

// H_C11_sr_power: symbolic m in (0,1], pow by contract.
//vsym:prop=C11 tier=quick ints=int floats=real timeout=120
func H_C11_sr_power() { c11sr(0, false) }

// c11srBias: one timestep with a NON-ZERO inflow bias inside the stability limit 2*k*bias <= dt
// and a linear storage-discharge relation (m = 1, for which storageRouting derives Klimit = k,
// Qlimit = Koffset = 0): non-negativity and the water balance (the storage-discharge relation is
// only claimed for bias 0).
func c11srBias(withEvap bool) {
	vsym.Summarise("FindRoot")
	inflow, lateral := vsym.Float64("inflow"), vsym.Float64("lateral")
	prevQi, prevOut, prevS := vsym.Float64("prevQi"), vsym.Float64("prevOutflow"), vsym.Float64("prevStorage")
	k, area, dead, dt := vsym.Float64("k"), vsym.Float64("area"), vsym.Float64("deadStorage"), vsym.Float64("dt")
	bias := vsym.Float64("bias")
	vsym.Assume(inflow >= 0 && lateral >= 0 && prevS >= 0 && prevOut >= 0)
	vsym.Assume(k > 0 && area >= 0 && dead >= 0 && dt >= 1 && dt <= 86400)
	vsym.Assume(bias >= 0.001 && bias <= 0.5 && 2*k*bias <= dt)
	evapRate := 0.0
	if withEvap {
		evapRate = vsym.Float64("netEvapRate")
	}
	_, outflow, storage := calcOutflow(0, inflow, lateral, bias, prevQi, prevOut, prevS, evapRate, area, dead, dt, 1.0, k, 0.0, k, 0.0)
	vsym.Reach("returned")
	vsym.Assert(outflow >= 0, "outflow-nonnegative")
	vsym.Assert(storage >= 0, "storage-nonnegative")
	evapFlux := math.Min(math.Max(0, prevS)/dt+inflow, area*evapRate)
	tol := 2 * massBalanceLimit
	vsym.AssertNear(storage-prevS, (inflow+lateral-outflow-evapFlux)*dt, tol, 1e-9, "water-balance-closes")
}

// H_C11_sr_bias: m = 1, inflow bias in [0.001, 0.5] within the stability limit, no evaporation.
//vsym:prop=C11 tier=quick ints=int floats=real timeout=120
func H_C11_sr_bias() { c11srBias(false) }

// H_C11_sr_bias_evap: same with an arbitrary net evaporation rate.
//vsym:prop=C11 tier=quick ints=int floats=real timeout=120
func H_C11_sr_bias_evap() { c11srBias(true) }

// c11srFull: one timestep through storageRouting itself (so that Klimit, Qlimit and Koffset are
// the ones the model derives) with a non-zero inflow bias AND a non-linear relation m = 1/2:
// non-negativity and the water balance.
func c11srFull(withEvap bool) {
	vsym.Summarise("FindRoot")
	inflow, lateral := vsym.Float64("inflow"), vsym.Float64("lateral")
	prevIn, prevOut, prevS := vsym.Float64("prevInflow"), vsym.Float64("prevOutflow"), vsym.Float64("prevStorage")
	k, area, dead, dt := vsym.Float64("k"), vsym.Float64("area"), vsym.Float64("deadStorage"), vsym.Float64("dt")
	bias := vsym.Float64("bias")
	vsym.Assume(inflow >= 0 && lateral >= 0 && prevS >= 0 && prevOut >= 0 && prevIn >= 0)
	vsym.Assume(k > 0 && k <= 1000000 && area >= 0 && dead >= 0 && dt >= 1 && dt <= 86400)
	vsym.Assume(bias >= 0.001 && bias <= 0.5)
	rain, evap := 0.0, 0.0
	if withEvap {
		rain, evap = c12nn("rain"), c12nn("evap")
	}
	o, st := rtOut(1), rtOut(1)
	fs, _, fo := storageRouting(c12one(inflow), c12one(lateral), c12one(rain), c12one(evap), prevS, prevIn, prevOut, bias, k, 0.5, area, dead, dt, o, st)
	vsym.Reach("returned")
	outflow, storage := o.Get1(0), st.Get1(0)
	vsym.Assert(outflow >= 0, "outflow-nonnegative")
	vsym.Hunt(storage >= 0, "storage-nonnegative")
	vsym.Assert(fs == storage && fo == outflow, "final-states-are-last-storage-and-outflow")
	evapFlux := math.Min(math.Max(0, prevS)/dt+inflow, area*(evap-rain)/dt)
	tol := 2 * massBalanceLimit
	vsym.HuntNear(storage-prevS, (inflow+lateral-outflow-evapFlux)*dt, tol, 1e-9, "water-balance-closes")
}

// H_C11_sr_bias_sqrt: m = 1/2 with inflow bias in [0.001, 0.5], no evaporation.
//vsym:prop=C11 tier=quick ints=int floats=real timeout=120
func H_C11_sr_bias_sqrt() { c11srFull(false) }

// H_C11_sr_setup_sqrt: zero inflow bias and m = 1/2 THROUGH storageRouting: the step it performs
// is exactly calcOutflow with the limiting-flow constants the scheme prescribes for bias 0 and
// m <= 1 (Klimit = k, Qlimit = 0, Koffset = 0) - the constants the calcOutflow-level harnesses
// above are run with; so their results (non-negativity, balance, S = k*Q^m + dead) are results
// about storageRouting and not about a transcription of its set-up.
//vsym:prop=C11 tier=quick ints=int floats=real timeout=120
func H_C11_sr_setup_sqrt() {
	vsym.Summarise("FindRoot")
	inflow, lateral := vsym.Float64("inflow"), vsym.Float64("lateral")
	prevIn, prevOut, prevS := vsym.Float64("prevInflow"), vsym.Float64("prevOutflow"), vsym.Float64("prevStorage")
	k, dead, dt := vsym.Float64("k"), vsym.Float64("deadStorage"), vsym.Float64("dt")
	vsym.Assume(inflow >= 0 && lateral >= 0 && prevS >= 0 && prevOut >= 0 && prevIn >= 0)
	vsym.Assume(k > 0 && k <= 1000000 && dead >= 0 && dt >= 1 && dt <= 86400)
	o, st := rtOut(1), rtOut(1)
	storageRouting(c12one(inflow), c12one(lateral), c12one(0), c12one(0), prevS, prevIn, prevOut, 0, k, 0.5, 0, dead, dt, o, st)
	_, eo, es := calcOutflow(0, inflow, lateral, 0, 0, prevOut, prevS, 0, 0, dead, dt, 0.5, k, 0, k, 0)
	vsym.Reach("returned")
	vsym.AssertNear(o.Get1(0), eo, 1e-12, 1e-12, "step-is-calcOutflow-with-the-prescribed-constants")
	vsym.AssertNear(st.Get1(0), es, 1e-12, 1e-12, "step-is-calcOutflow-with-the-prescribed-constants")
}

// c11srSetupEvap: as H_C11_sr_setup_sqrt with a reach surface area and arbitrary rainfall and
// evaporation depths for the step (zero inflow bias, m = 1 or 1/2): the step storageRouting
// performs is calcOutflow with the net evaporation RATE (evaporation - rainfall) / timestep, for
// any timestep length in [1 s, 1 d] - so that the calcOutflow-level balance results with an
// arbitrary rate (H_C11_sr_linear_evap, H_C11_sr_bias_evap) are results about storageRouting's
// per-step depths, whatever the timestep.
func c11srSetupEvap(m float64) {
	vsym.Summarise("FindRoot")
	inflow, lateral := vsym.Float64("inflow"), vsym.Float64("lateral")
	prevIn, prevOut, prevS := vsym.Float64("prevInflow"), vsym.Float64("prevOutflow"), vsym.Float64("prevStorage")
	k, dead, dt, area := vsym.Float64("k"), vsym.Float64("deadStorage"), vsym.Float64("dt"), vsym.Float64("area")
	rain, evap := c12nn("rain"), c12nn("evap")
	vsym.Assume(inflow >= 0 && lateral >= 0 && prevS >= 0 && prevOut >= 0 && prevIn >= 0)
	vsym.Assume(k > 0 && k <= 1000000 && dead >= 0 && dt >= 1 && dt <= 86400 && area >= 0 && area <= 1000000)
	o, st := rtOut(1), rtOut(1)
	storageRouting(c12one(inflow), c12one(lateral), c12one(rain), c12one(evap), prevS, prevIn, prevOut, 0, k, m, area, dead, dt, o, st)
	_, eo, es := calcOutflow(0, inflow, lateral, 0, 0, prevOut, prevS, (evap-rain)/dt, area, dead, dt, m, k, 0, k, 0)
	vsym.Reach("returned")
	vsym.AssertNear(o.Get1(0), eo, 1e-12, 1e-12, "step-is-calcOutflow-with-net-evaporation-depth-over-the-timestep")
	vsym.AssertNear(st.Get1(0), es, 1e-12, 1e-12, "step-is-calcOutflow-with-net-evaporation-depth-over-the-timestep")
}

// H_C11_sr_setup_evap_linear: see c11srSetupEvap, m = 1.
//vsym:prop=C11 tier=quick ints=int floats=real timeout=120
func H_C11_sr_setup_evap_linear() { c11srSetupEvap(1) }

// H_C11_sr_setup_evap_sqrt: m = 1/2.
//vsym:prop=C11 tier=quick ints=int floats=real timeout=120
func H_C11_sr_setup_evap_sqrt() { c11srSetupEvap(0.5) }

// H_C11_sr_full_evap: one step through storageRouting with inflow bias, m = 1/2, a surface area
// and rainfall/evaporation depths: non-negativity and the water balance (counterexample search).
//vsym:prop=C11 tier=quick ints=int floats=real timeout=120
func H_C11_sr_full_evap() { c11srFull(true) }
