package routing

import (
	"github.com/flowmatters/openwater-core/data"
	"github.com/flowmatters/openwater-core/zzverif/vsym"
)

func c11muskParams() (k, x, dt float64) {
	k, x, dt = vsym.Float64("K"), vsym.Float64("X"), vsym.Float64("dt")
	// stable region 2KX <= dt <= 2K(1-X), K > 0, 0 <= X <= 0.5
	vsym.Assume(k > 0 && x >= 0 && x <= 0.5 && dt > 0)
	vsym.Assume(2*k*x <= dt && dt <= 2*k*(1-x))
	return
}

// H_C11_musk_recurrence: T=2, arbitrary inflow/lateral series and state.  The second outflow
// applies the Muskingum weights (independent transcription, summing to one) to the TOTAL inflow
// (upstream + lateral) at both time levels; equivalently the storage S = K(X*I + (1-X)*O)
// changes by dt * (mean total inflow - mean outflow).
//vsym:prop=C11 tier=quick ints=int floats=real
func H_C11_musk_recurrence() {
	T := 2
	in, lat := rtSeries("in", T, true), rtSeries("lat", T, true)
	k, x, dt := c11muskParams()
	s0, pi, po := vsym.Float64("s"), vsym.Float64("prevInflow"), vsym.Float64("prevOutflow")
	vsym.Assume(pi >= 0 && po >= 0)
	out := rtOut(T)
	_, pi2, po2 := muskingum(in, lat, s0, pi, po, k, x, dt, out)
	d := 2*k*(1-x) + dt
	c1, c2, c3 := (dt-2*k*x)/d, (dt+2*k*x)/d, (2*k*(1-x)-dt)/d
	vsym.Reach("run")
	vsym.AssertNear(c1+c2+c3, 1, rtAbs, rtRel, "weights-sum-to-one")
	i0, i1 := in.Get1(0)+lat.Get1(0), in.Get1(1)+lat.Get1(1)
	vsym.AssertNear(out.Get1(0), c1*i0+c2*pi+c3*po, rtAbs, rtRel, "first-step-recurrence")
	vsym.AssertNear(out.Get1(1), c1*i1+c2*i0+c3*out.Get1(0), rtAbs, rtRel, "second-step-routes-previous-total-inflow")
	// continuity between the two time levels
	sA := k * (x*i0 + (1-x)*out.Get1(0))
	sB := k * (x*i1 + (1-x)*out.Get1(1))
	vsym.AssertNear(sB-sA, dt*((i0+i1)/2-(out.Get1(0)+out.Get1(1))/2), rtAbs, rtRel, "storage-change-equals-net-volume")
	vsym.AssertNear(po2, out.Get1(1), rtAbs, rtRel, "state-carries-last-outflow")
	vsym.AssertNear(pi2, i1, rtAbs, rtRel, "state-carries-last-total-inflow")
	vsym.Assert(out.Get1(0) >= 0 && out.Get1(1) >= 0, "outflow-nonnegative-in-stable-region")
}

// H_C11_musk_steady: a steady upstream + lateral flow from the matching steady state passes unchanged (T=3).
//vsym:prop=C11 tier=quick ints=int floats=real
func H_C11_musk_steady() {
	T := 3
	q, l := vsym.Float64("q"), vsym.Float64("l")
	vsym.Assume(q >= 0 && l >= 0)
	in, lat := data.NewArray1DFloat64(T), data.NewArray1DFloat64(T)
	for t := 0; t < T; t++ {
		in.Set1(t, q)
		lat.Set1(t, l)
	}
	k, x, dt := c11muskParams()
	out := rtOut(T)
	muskingum(in, lat, 0, q+l, q+l, k, x, dt, out)
	vsym.Reach("run")
	for t := 0; t < T; t++ {
		vsym.AssertNear(out.Get1(t), q+l, rtAbs, rtRel, "steady-flow-passes-unchanged")
	}
}

func c11lag(L, T int) {
	in := rtSeries("in", T, false)
	buf := make([]float64, L)
	for i := range buf {
		buf[i] = vsym.Float64("buf")
	}
	old := make([]float64, L)
	copy(old, buf)
	out := rtOut(T)
	nb := lag(in, buf, float64(L), out)
	vsym.Reach("run")
	for t := 0; t < T; t++ {
		if t < L {
			vsym.Assert(out.Get1(t) == old[t], "first-steps-come-from-carried-buffer")
		} else {
			vsym.Assert(out.Get1(t) == in.Get1(t-L), "outflow-is-inflow-delayed-by-lag")
		}
	}
	vsym.Assert(len(nb) == L, "buffer-length-is-lag")
	// final buffer = last L elements of old ++ inflow
	for i := 0; i < L && i < len(nb); i++ {
		p := T + i // position in the concatenation old(L) ++ in(T), last L elements start at T
		if p < L {
			vsym.Assert(nb[i] == old[p], "final-buffer-is-tail-of-buffer-plus-inflow")
		} else {
			vsym.Assert(nb[i] == in.Get1(p-L), "final-buffer-is-tail-of-buffer-plus-inflow")
		}
	}
}

// H_C11_lag_all: every lag L in [0,4] and series length T in [0,4] (all 25 pairs, including lags
// longer than the series), all values symbolic.
//vsym:prop=C11 tier=quick ints=int floats=real
func H_C11_lag_all() {
	L, T := vsym.Int("L"), vsym.Int("T")
	vsym.Assume(L >= 0 && L <= 4 && T >= 0 && T <= 4)
	c11lag(vsym.Concrete(L), vsym.Concrete(T))
}

// H_C11_lag_wide: L and T up to 7.
//vsym:prop=C11 tier=thorough ints=int floats=real
func H_C11_lag_wide() {
	L, T := vsym.Int("L"), vsym.Int("T")
	vsym.Assume(L >= 0 && L <= 7 && T >= 0 && T <= 7)
	c11lag(vsym.Concrete(L), vsym.Concrete(T))
}
