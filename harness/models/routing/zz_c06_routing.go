package routing

import (
	"github.com/flowmatters/openwater-core/data"
	"github.com/flowmatters/openwater-core/zzverif/vsym"
)

func r06split(a data.ND1Float64, from, n int) data.ND1Float64 {
	r := data.NewArray1DFloat64(n)
	for i := 0; i < n; i++ {
		r.Set1(i, a.Get1(from+i))
	}
	return r
}

// H_C06_muskingum: T=3 one-shot vs. all splits.
//vsym:prop=C06 tier=quick ints=int floats=real
func H_C06_muskingum() {
	T := 3
	in, lat := rtSeries("in", T, false), rtSeries("lat", T, false)
	k, x, dt := vsym.Float64("K"), vsym.Float64("X"), vsym.Float64("dt")
	vsym.Assume(2*k*(1-x)+dt > 0)
	s0, pi0, po0 := vsym.Float64("s"), vsym.Float64("prevIn"), vsym.Float64("prevOut")
	outA := rtOut(T)
	sA, piA, poA := muskingum(in, lat, s0, pi0, po0, k, x, dt, outA)
	vsym.Reach("one-shot")
	for _, cut := range [][]int{{1, 2}, {2, 1}, {1, 1, 1}} {
		s, pi, po := s0, pi0, po0
		from := 0
		for _, n := range cut {
			o := rtOut(n)
			s, pi, po = muskingum(r06split(in, from, n), r06split(lat, from, n), s, pi, po, k, x, dt, o)
			for j := 0; j < n; j++ {
				vsym.AssertNear(o.Get1(j), outA.Get1(from+j), rtAbs, rtRel, "split-outputs-equal-one-shot")
			}
			from += n
		}
		vsym.AssertNear(s, sA, rtAbs, rtRel, "split-final-states-equal-one-shot")
		vsym.AssertNear(pi, piA, rtAbs, rtRel, "split-final-states-equal-one-shot")
		vsym.AssertNear(po, poA, rtAbs, rtRel, "split-final-states-equal-one-shot")
	}
}

// H_C06_storage_routing: a continued run starts from the carried states: one timestep of
// storageRouting called with arbitrary initial states (S, prevInflow, prevOutflow) is exactly the
// step function calcOutflow applied to that storage and outflow (with a fresh index-flow guess).
// The uninterrupted run applies the same step function to the same storage/outflow with the
// previous index flow as guess; the guess only selects a different point inside the solver's
// mass-balance tolerance (each result satisfies the balance obligations of C11), which is the
// "to within the solver's own mass-balance tolerance" clause of the property.
//vsym:prop=C06 tier=quick ints=int floats=real timeout=120
func H_C06_storage_routing() {
	vsym.Summarise("FindRoot")
	in, lat, rain, evap := c12nn("in"), c12nn("lat"), c12nn("rain"), c12nn("evap")
	k, area, dead, dt := vsym.Float64("k"), vsym.Float64("area"), vsym.Float64("dead"), vsym.Float64("dt")
	vsym.Assume(k > 0 && area >= 0 && dead >= 0 && dt >= 1 && dt <= 86400)
	s0, pi0, po0 := c12nn("S"), c12nn("prevInflow"), c12nn("prevOutflow")
	o, st := rtOut(1), rtOut(1)
	fs, fi, fo := storageRouting(c12one(in), c12one(lat), c12one(rain), c12one(evap), s0, pi0, po0, 0, k, 1, area, dead, dt, o, st)
	_, eo, es := calcOutflow(0, in, lat, 0, 0, po0, s0, (evap-rain)/dt, area, dead, dt, 1, k, 0, k, 0)
	vsym.Reach("run")
	vsym.Assert(o.Get1(0) == eo && st.Get1(0) == es, "segment-starts-from-carried-storage-and-outflow")
	vsym.Assert(fs == es && fo == eo && fi == in, "final-states-are-last-storage-inflow-outflow")
}

// H_C06_lag_pack: the lag buffer survives pack/extract (what the wrapper writes back and reads).
//vsym:prop=C06 tier=quick ints=int floats=real
func H_C06_lag_pack() {
	L := vsym.Int("L")
	vsym.Assume(L >= 0 && L <= 4)
	L = vsym.Concrete(L)
	buf := make([]float64, L)
	for i := range buf {
		buf[i] = vsym.Float64("buf")
	}
	packed := packLagStates(buf)
	vsym.Reach("packed")
	vsym.Assert(packed.Len(1) == L, "packed-row-has-lag-length")
	if L > 0 {
		row := packed.Slice([]int{0, 0}, []int{1, L}, nil).MustReshape([]int{L}).(data.ND1Float64)
		back := extractLagStates(row)
		for i := 0; i < L && i < len(back); i++ {
			vsym.Assert(back[i] == buf[i], "buffer-survives-pack-extract")
		}
	}
}

// H_C06_lag_kernel: lag L in [0,3], T=3 one-shot vs 1+2 / 2+1 / 1+1+1 carrying the returned buffer.
//vsym:prop=C06 tier=quick ints=int floats=real
func H_C06_lag_kernel() {
	L := vsym.Int("L")
	vsym.Assume(L >= 0 && L <= 3)
	L = vsym.Concrete(L)
	T := 3
	in := rtSeries("in", T, false)
	b0 := make([]float64, L)
	for i := range b0 {
		b0[i] = vsym.Float64("buf")
	}
	cp := func(x []float64) []float64 { y := make([]float64, len(x)); copy(y, x); return y }
	outA := rtOut(T)
	bA := lag(in, cp(b0), float64(L), outA)
	vsym.Reach("one-shot")
	for _, cut := range [][]int{{1, 2}, {2, 1}, {1, 1, 1}} {
		b := cp(b0)
		from := 0
		for _, n := range cut {
			o := rtOut(n)
			b = lag(r06split(in, from, n), b, float64(L), o)
			for j := 0; j < n; j++ {
				vsym.Assert(o.Get1(j) == outA.Get1(from+j), "split-outputs-equal-one-shot")
			}
			from += n
		}
		for i := 0; i < L; i++ {
			vsym.Assert(b[i] == bA[i], "split-final-states-equal-one-shot")
		}
	}
}

// H_C06_constituents: lumped transport, constituent decay, coarse sediment: T=2 one-shot vs 1+1.
//vsym:prop=C06 tier=quick ints=int floats=real
func H_C06_constituents() {
	T := 2
	a, b, c, d, e := rtSeries("a", T, true), rtSeries("b", T, true), rtSeries("c", T, true), rtSeries("d", T, true), rtSeries("e", T, true)
	m0, dt, hl, pt := c12nn("stored"), vsym.Float64("dt"), vsym.Float64("halflife"), c12nn("point")
	vsym.Assume(dt > 0)
	// lumped
	oA, pA := rtOut(T), rtOut(T)
	mA := LumpedConstituentTransport(a, b, c, d, m0, 0, pt, dt, oA, pA)
	o1, p1 := rtOut(1), rtOut(1)
	m1 := LumpedConstituentTransport(r06split(a, 0, 1), r06split(b, 0, 1), r06split(c, 0, 1), r06split(d, 0, 1), m0, 0, pt, dt, o1, p1)
	o2, p2 := rtOut(1), rtOut(1)
	m2 := LumpedConstituentTransport(r06split(a, 1, 1), r06split(b, 1, 1), r06split(c, 1, 1), r06split(d, 1, 1), m1, 0, pt, dt, o2, p2)
	vsym.Reach("lumped")
	vsym.AssertNear(o1.Get1(0), oA.Get1(0), rtAbs, rtRel, "lumped-split-equals-one-shot")
	vsym.AssertNear(o2.Get1(0), oA.Get1(1), rtAbs, rtRel, "lumped-split-equals-one-shot")
	vsym.AssertNear(m2, mA, rtAbs, rtRel, "lumped-split-equals-one-shot")
	// decay
	dA, lA := rtOut(T), rtOut(T)
	nA := constituentDecay(a, b, e, c, d, m0, 0, hl, dt, dA, lA)
	d1, l1 := rtOut(1), rtOut(1)
	n1 := constituentDecay(r06split(a, 0, 1), r06split(b, 0, 1), r06split(e, 0, 1), r06split(c, 0, 1), r06split(d, 0, 1), m0, 0, hl, dt, d1, l1)
	d2, l2 := rtOut(1), rtOut(1)
	n2 := constituentDecay(r06split(a, 1, 1), r06split(b, 1, 1), r06split(e, 1, 1), r06split(c, 1, 1), r06split(d, 1, 1), n1, 0, hl, dt, d2, l2)
	vsym.AssertNear(l2.Get1(0), lA.Get1(1), rtAbs, rtRel, "decay-split-equals-one-shot")
	vsym.AssertNear(d2.Get1(0), dA.Get1(1), rtAbs, rtRel, "decay-split-equals-one-shot")
	vsym.AssertNear(n2, nA, rtAbs, rtRel, "decay-split-equals-one-shot")
	// coarse sediment
	ch0 := c12nn("channel")
	cA := rtOut(T)
	chA, stA := instreamCoarseSediment(a, b, c, ch0, m0, dt, cA)
	c1, c2 := rtOut(1), rtOut(1)
	ch1, st1 := instreamCoarseSediment(r06split(a, 0, 1), r06split(b, 0, 1), r06split(c, 0, 1), ch0, m0, dt, c1)
	ch2, st2 := instreamCoarseSediment(r06split(a, 1, 1), r06split(b, 1, 1), r06split(c, 1, 1), ch1, st1, dt, c2)
	vsym.AssertNear(ch2, chA, rtAbs, rtRel, "coarse-split-equals-one-shot")
	vsym.AssertNear(st2, stA, rtAbs, rtRel, "coarse-split-equals-one-shot")
	vsym.AssertNear(c2.Get1(0), cA.Get1(1), rtAbs, rtRel, "coarse-split-equals-one-shot")
}
