package routing

import (
	"github.com/flowmatters/openwater-core/data"
	"github.com/flowmatters/openwater-core/zzverif/vsym"
)

func rtSeries(tag string, T int, nonneg bool) data.ND1Float64 {
	a := data.NewArray1DFloat64(T)
	for i := 0; i < T; i++ {
		v := vsym.Float64(tag)
		if nonneg {
			vsym.Assume(v >= 0)
		}
		a.Set1(i, v)
	}
	return a
}
func rtOut(T int) data.ND1Float64 { return data.NewArray1DFloat64(T) }

const rtAbs = 1e-9
const rtRel = 1e-9

func c12nn(tag string) float64 {
	v := vsym.Float64(tag)
	vsym.Assume(v >= 0)
	return v
}

func c12one(v float64) data.ND1Float64 {
	a := data.NewArray1DFloat64(1)
	a.Set1(0, v)
	return a
}
