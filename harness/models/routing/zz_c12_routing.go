package routing

import (
	"github.com/flowmatters/openwater-core/zzverif/vsym"
)


const c12Abs = 1e-9
const c12Rel = 1e-9

// H_C12_lumped: one step of LumpedConstituentTransport from an arbitrary stored mass:
// in*dt + stored = out*dt + stored'  unless working volume < MINIMUM_VOLUME (documented flush,
// where everything is zeroed); loads and stored mass non-negative.
//vsym:prop=C12 tier=quick ints=int floats=real
func H_C12_lumped() {
	in, lat, outQ, vol := c12nn("inLoad"), c12nn("latLoad"), c12nn("outflow"), c12nn("volume")
	stored, point, dt := c12nn("stored"), c12nn("pointInput"), vsym.Float64("dt")
	vsym.Assume(dt > 0)
	outL, ps := rtOut(1), rtOut(1)
	stored2 := LumpedConstituentTransport(c12one(in), c12one(lat), c12one(outQ), c12one(vol), stored, 0, point, dt, outL, ps)
	vsym.Reach("run")
	vsym.Assert(outL.Get1(0) >= 0 && stored2 >= 0, "loads-and-store-nonnegative")
	if outQ*dt+vol >= MINIMUM_VOLUME {
		vsym.AssertNear((in+lat+point)*dt+stored, outL.Get1(0)*dt+stored2, c12Abs, c12Rel, "mass-balance-closes")
		vsym.Assert(ps.Get1(0) == point, "point-source-reported")
	} else {
		vsym.Assert(outL.Get1(0) == 0 && stored2 == 0, "flush-below-minimum-volume-zeroes")
	}
}

// H_C12_decay: ConstituentDecay, both decay on (half-life > 0, 2^(-dt/h) by contract in (0,1]) and off.
//vsym:prop=C12 tier=quick ints=int floats=real
func H_C12_decay() {
	in, lat, inQ, outQ, vol := c12nn("inLoad"), c12nn("latLoad"), c12nn("inflow"), c12nn("outflow"), c12nn("volume")
	stored, hl, dt := c12nn("stored"), vsym.Float64("halflife"), vsym.Float64("dt")
	vsym.Assume(dt > 0)
	dec, outL := rtOut(1), rtOut(1)
	stored2 := constituentDecay(c12one(in), c12one(lat), c12one(inQ), c12one(outQ), c12one(vol), stored, 0, hl, dt, dec, outL)
	vsym.Reach("run")
	vsym.Assert(outL.Get1(0) >= 0 && stored2 >= 0 && dec.Get1(0) >= 0, "loads-and-store-nonnegative")
	vsym.Assert(dec.Get1(0)*dt <= stored, "decay-at-most-stored-mass")
	if hl <= 0 {
		vsym.Assert(dec.Get1(0) == 0, "no-decay-when-disabled")
	}
	if outQ*dt+vol >= 0.01 {
		vsym.AssertNear((in+lat)*dt+stored, outL.Get1(0)*dt+dec.Get1(0)*dt+stored2, c12Abs, c12Rel, "mass-balance-closes")
	} else {
		vsym.Assert(outL.Get1(0) == 0 && stored2 == 0, "flush-below-minimum-volume-zeroes")
	}
}

// H_C12_coarse: InstreamCoarseSediment deposits everything: channel store grows by all incoming + stored mass.
//vsym:prop=C12 tier=quick ints=int floats=real
func H_C12_coarse() {
	up, lat, loc := c12nn("up"), c12nn("lat"), c12nn("local")
	ch, stored, dt := c12nn("channelStore"), c12nn("stored"), vsym.Float64("dt")
	vsym.Assume(dt > 0)
	down := rtOut(1)
	ch2, stored2 := instreamCoarseSediment(c12one(up), c12one(lat), c12one(loc), ch, stored, dt, down)
	vsym.Reach("run")
	vsym.AssertNear((up+lat+loc)*dt+stored+ch, down.Get1(0)*dt+stored2+ch2, c12Abs, c12Rel, "mass-balance-closes")
	vsym.Assert(down.Get1(0) >= 0 && stored2 >= 0 && ch2 >= 0, "loads-and-store-nonnegative")
}

func c12fine(bankFullZero bool) {
	up, lat, loc, vol, outQ := c12nn("up"), c12nn("lat"), c12nn("local"), c12nn("volume"), c12nn("outflow")
	ch, stored := c12nn("channelStore"), c12nn("stored")
	bankFull := 0.0
	if !bankFullZero {
		bankFull = vsym.Float64("bankFullFlow")
		vsym.Assume(bankFull > 1e-8)
	}
	names := []string{"settVelFlood", "floodPlainArea", "linkWidth", "linkLength", "linkSlope", "bankHeight", "propBankHeight", "bulkDensity", "manningsN", "settVel", "remobVel"}
	p := make([]float64, len(names))
	for i := range p {
		p[i] = vsym.Float64(names[i])
		vsym.Assume(p[i] > 0)
	}
	dt := vsym.Float64("dt")
	vsym.Assume(dt > 0)
	// the channel store never exceeds its capacity (established by the model itself: deposition is
	// limited to maxStorage - store)
	maxStorage := p[6] * p[5] * (p[2] * p[3]) * p[7] * 1000
	vsym.Assume(ch <= maxStorage)
	down, fp, dep, fpf, chf := rtOut(1), rtOut(1), rtOut(1), rtOut(1), rtOut(1)
	ch2, stored2 := instreamFineSediment(c12one(up), c12one(lat), c12one(loc), c12one(vol), c12one(outQ), ch, stored,
		bankFull, p[0], p[1], p[2], p[3], p[4], p[5], p[6], p[7], p[8], p[9], p[10], dt, down, fp, dep, fpf, chf)
	vsym.Reach("run")
	vsym.Assert(down.Get1(0) >= 0 && stored2 >= 0 && fp.Get1(0) >= 0, "loads-and-store-nonnegative")
	vsym.Assert(ch2 >= 0, "channel-store-nonnegative")
	vsym.Assert(ch2 <= maxStorage || bankFullZero, "channel-store-within-capacity")
	vsym.Assert(ch-ch2 <= ch, "remobilisation-at-most-channel-store")
	lossAllowed := outQ*dt+vol <= 0
	if bankFullZero {
		lossAllowed = outQ*dt+vol < MINIMUM_VOLUME
	}
	if !lossAllowed {
		vsym.AssertNear((up+lat+loc)*dt+stored+ch, down.Get1(0)*dt+fp.Get1(0)*dt+stored2+ch2, c12Abs, c12Rel, "mass-balance-closes")
	}
}

// H_C12_fine_bankfull: InstreamFineSediment with bank-full flow > 0: every branch (flood-plain
// deposition on/off, channel deposition / remobilisation / neither); the four pow() terms by contract.
//vsym:prop=C12 tier=quick ints=int floats=real timeout=120
func H_C12_fine_bankfull() { c12fine(false) }

// H_C12_fine_nobankfull: bank-full flow 0 (falls back to lumped transport).
//vsym:prop=C12 tier=quick ints=int floats=real timeout=120
func H_C12_fine_nobankfull() { c12fine(true) }

// H_C12_particulate_nutrient: InstreamParticulateNutrient one step: incoming + stream-bank mass +
// in-stream and channel stores = downstream + floodplain + final stores, both signs of the bed
// exchange signal, unless flushed below the minimum volume.
//vsym:prop=C12 tier=quick ints=int floats=real timeout=120
func H_C12_particulate_nutrient() {
	up, lat, vol, outQ, bank, latSed := c12nn("up"), c12nn("lat"), c12nn("volume"), c12nn("outflow"), c12nn("bankErosion"), vsym.Float64("lateralSediment")
	fpFrac, chFrac := vsym.Float64("fpFraction"), vsym.Float64("chFraction")
	vsym.Assume(chFrac >= -1 && chFrac <= 1)
	inst, chst := c12nn("instreamStored"), c12nn("channelStored")
	conc, pctFine, dt := c12nn("nutrientConc"), vsym.Float64("soilPercentFine"), vsym.Float64("dt")
	vsym.Assume(pctFine >= 0 && pctFine <= 100 && dt > 0)
	dep, fromBank, down, toFp := rtOut(1), rtOut(1), rtOut(1), rtOut(1)
	inst2, chst2 := instreamParticulateNutrient(c12one(up), c12one(lat), c12one(vol), c12one(outQ), c12one(bank), c12one(latSed), c12one(fpFrac), c12one(chFrac),
		inst, chst, conc, pctFine, dt, dep, fromBank, down, toFp)
	vsym.Reach("run")
	vsym.Assert(down.Get1(0) >= 0 && inst2 >= 0 && toFp.Get1(0) >= 0, "loads-and-store-nonnegative")
	if outQ*dt+vol >= MINIMUM_VOLUME {
		vsym.AssertNear((up+lat)*dt+bank*conc*dt+inst+chst, down.Get1(0)*dt+toFp.Get1(0)*dt+inst2+chst2, c12Abs, c12Rel, "mass-balance-closes")
	} else {
		vsym.Assert(down.Get1(0) == 0 && inst2 == 0, "flush-below-minimum-volume-zeroes")
	}
}

// H_C12_lumped_two: TWO steps in one call ("over any period"; also: nothing but the stored mass is
// carried from one step to the next): total in + stored = total out + stored', no flush step.
//vsym:prop=C12 tier=quick ints=int floats=real timeout=60
func H_C12_lumped_two() {
	in, lat, outQ, vol := rtOut(2), rtOut(2), rtOut(2), rtOut(2)
	sumIn := 0.0
	stored, point, dt := c12nn("stored"), c12nn("pointInput"), vsym.Float64("dt")
	vsym.Assume(dt > 0)
	for t := 0; t < 2; t++ {
		a, b, q, v := c12nn("inLoad"), c12nn("latLoad"), c12nn("outflow"), c12nn("volume")
		in.Set1(t, a)
		lat.Set1(t, b)
		outQ.Set1(t, q)
		vol.Set1(t, v)
		vsym.Assume(q*dt+v >= MINIMUM_VOLUME)
		sumIn += (a + b + point) * dt
	}
	outL, ps := rtOut(2), rtOut(2)
	stored2 := LumpedConstituentTransport(in, lat, outQ, vol, stored, 0, point, dt, outL, ps)
	vsym.Reach("run")
	vsym.Assert(outL.Get1(0) >= 0 && outL.Get1(1) >= 0 && stored2 >= 0, "loads-and-store-nonnegative")
	vsym.AssertNear(sumIn+stored, (outL.Get1(0)+outL.Get1(1))*dt+stored2, c12Abs, c12Rel, "mass-balance-closes-over-two-steps")
}

// H_C12_decay_two: ConstituentDecay over two steps in one call.
//vsym:prop=C12 tier=quick ints=int floats=real timeout=60
func H_C12_decay_two() {
	in, lat, inQ, outQ, vol := rtOut(2), rtOut(2), rtOut(2), rtOut(2), rtOut(2)
	sumIn := 0.0
	stored, hl, dt := c12nn("stored"), vsym.Float64("halflife"), vsym.Float64("dt")
	vsym.Assume(dt > 0)
	for t := 0; t < 2; t++ {
		a, b, qi, q, v := c12nn("inLoad"), c12nn("latLoad"), c12nn("inflow"), c12nn("outflow"), c12nn("volume")
		in.Set1(t, a)
		lat.Set1(t, b)
		inQ.Set1(t, qi)
		outQ.Set1(t, q)
		vol.Set1(t, v)
		vsym.Assume(q*dt+v >= 0.01)
		sumIn += (a + b) * dt
	}
	dec, outL := rtOut(2), rtOut(2)
	stored2 := constituentDecay(in, lat, inQ, outQ, vol, stored, 0, hl, dt, dec, outL)
	vsym.Reach("run")
	vsym.Assert(outL.Get1(1) >= 0 && stored2 >= 0 && dec.Get1(1) >= 0, "loads-and-store-nonnegative")
	vsym.AssertNear(sumIn+stored, (outL.Get1(0)+outL.Get1(1)+dec.Get1(0)+dec.Get1(1))*dt+stored2, c12Abs, c12Rel, "mass-balance-closes-over-two-steps")
}

// H_C12_coarse_two: InstreamCoarseSediment over two steps in one call.
//vsym:prop=C12 tier=quick ints=int floats=real timeout=60
func H_C12_coarse_two() {
	up, lat, loc := rtOut(2), rtOut(2), rtOut(2)
	sumIn := 0.0
	ch, stored, dt := c12nn("channelStore"), c12nn("stored"), vsym.Float64("dt")
	vsym.Assume(dt > 0)
	for t := 0; t < 2; t++ {
		a, b, c := c12nn("up"), c12nn("lat"), c12nn("local")
		up.Set1(t, a)
		lat.Set1(t, b)
		loc.Set1(t, c)
		sumIn += (a + b + c) * dt
	}
	down := rtOut(2)
	ch2, stored2 := instreamCoarseSediment(up, lat, loc, ch, stored, dt, down)
	vsym.Reach("run")
	vsym.AssertNear(sumIn+stored+ch, (down.Get1(0)+down.Get1(1))*dt+stored2+ch2, c12Abs, c12Rel, "mass-balance-closes-over-two-steps")
	vsym.Assert(down.Get1(1) >= 0 && stored2 >= 0 && ch2 >= 0, "loads-and-store-nonnegative")
}

// H_C12_lumped_chain: THREE steps of LumpedConstituentTransport in one call - any mix of ordinary
// days and flush days (working volume below the minimum) in any order - give, step by step, the
// downstream load, the reported point source and the final stored mass of three one-step calls
// chained through the returned stored mass.  With the one-step balance (H_C12_lumped) this is the
// balance over any period, and it shows that the loop carries nothing but the stored mass from one
// step to the next (a concentration left over from the previous day, say).
//vsym:prop=C12 tier=quick ints=int floats=real timeout=60
func H_C12_lumped_chain() {
	const T = 3
	in, lat, outQ, vol := rtOut(T), rtOut(T), rtOut(T), rtOut(T)
	stored, point, dt := c12nn("stored"), c12nn("pointInput"), vsym.Float64("dt")
	vsym.Assume(dt > 0)
	var a, b, q, v [T]float64
	for t := 0; t < T; t++ {
		a[t], b[t], q[t], v[t] = c12nn("inLoad"), c12nn("latLoad"), c12nn("outflow"), c12nn("volume")
		in.Set1(t, a[t])
		lat.Set1(t, b[t])
		outQ.Set1(t, q[t])
		vol.Set1(t, v[t])
	}
	outL, ps := rtOut(T), rtOut(T)
	whole := LumpedConstituentTransport(in, lat, outQ, vol, stored, 0, point, dt, outL, ps)
	vsym.Reach("run")
	m := stored
	for t := 0; t < T; t++ {
		o1, p1 := rtOut(1), rtOut(1)
		m = LumpedConstituentTransport(c12one(a[t]), c12one(b[t]), c12one(q[t]), c12one(v[t]), m, 0, point, dt, o1, p1)
		vsym.AssertNear(outL.Get1(t), o1.Get1(0), c12Abs, c12Rel, "step-of-a-long-run-equals-the-chained-single-step")
		vsym.AssertNear(ps.Get1(t), p1.Get1(0), c12Abs, c12Rel, "step-of-a-long-run-equals-the-chained-single-step")
	}
	vsym.AssertNear(whole, m, c12Abs, c12Rel, "final-store-of-a-long-run-equals-the-chained-single-steps")
}

// H_C12_decay_chain: the same for ConstituentDecay (three steps, flush days allowed).
//vsym:prop=C12 tier=quick ints=int floats=real timeout=60
func H_C12_decay_chain() {
	const T = 3
	in, lat, inQ, outQ, vol := rtOut(T), rtOut(T), rtOut(T), rtOut(T), rtOut(T)
	stored, hl, dt := c12nn("stored"), vsym.Float64("halflife"), vsym.Float64("dt")
	vsym.Assume(dt > 0)
	var a, b, qi, q, v [T]float64
	for t := 0; t < T; t++ {
		a[t], b[t], qi[t], q[t], v[t] = c12nn("inLoad"), c12nn("latLoad"), c12nn("inflow"), c12nn("outflow"), c12nn("volume")
		in.Set1(t, a[t])
		lat.Set1(t, b[t])
		inQ.Set1(t, qi[t])
		outQ.Set1(t, q[t])
		vol.Set1(t, v[t])
	}
	dec, outL := rtOut(T), rtOut(T)
	whole := constituentDecay(in, lat, inQ, outQ, vol, stored, 0, hl, dt, dec, outL)
	vsym.Reach("run")
	m := stored
	for t := 0; t < T; t++ {
		d1, o1 := rtOut(1), rtOut(1)
		m = constituentDecay(c12one(a[t]), c12one(b[t]), c12one(qi[t]), c12one(q[t]), c12one(v[t]), m, 0, hl, dt, d1, o1)
		vsym.AssertNear(outL.Get1(t), o1.Get1(0), c12Abs, c12Rel, "step-of-a-long-run-equals-the-chained-single-step")
		vsym.AssertNear(dec.Get1(t), d1.Get1(0), c12Abs, c12Rel, "step-of-a-long-run-equals-the-chained-single-step")
	}
	vsym.AssertNear(whole, m, c12Abs, c12Rel, "final-store-of-a-long-run-equals-the-chained-single-steps")
}
