package functions

import (
	"github.com/flowmatters/openwater-core/data"
	"github.com/flowmatters/openwater-core/zzverif/vsym"
)

// independent reference: days since 0000-03-01 style civil-day algorithm (proleptic Gregorian)
func refDayNumber(d, m, y int) int {
	// shift so the year starts in March
	yy := y
	mm := m
	if mm <= 2 {
		yy = yy - 1
		mm = mm + 12
	}
	// yy >= 0 here because y >= 1
	era := yy / 400
	yoe := yy - era*400
	doy := (153*(mm-3)+2)/5 + d - 1
	doe := yoe*365 + yoe/4 - yoe/100 + doy
	return era*146097 + doe
}

func refLeap(y int) bool { return (y%4 == 0 && y%100 != 0) || y%400 == 0 }

func refValidDate(d, m, y int) bool {
	if y < 1 || m < 1 || m > 12 || d < 1 {
		return false
	}
	if m == 2 {
		if refLeap(y) {
			return d <= 29
		}
		return d <= 28
	}
	if m == 4 || m == 6 || m == 9 || m == 11 {
		return d <= 30
	}
	return d <= 31
}

func c19run(T int) {
	d, m, y := vsym.Int("d"), vsym.Int("m"), vsym.Int("y")
	vsym.Assume(y >= 1 && y <= 1000000000)
	vsym.Assume(refValidDate(d, m, y))
	tick := data.NewArray1DFloat64(T)
	date := data.NewArray1DFloat64(T)
	month := data.NewArray1DFloat64(T)
	year := data.NewArray1DFloat64(T)
	doy := data.NewArray1DFloat64(T)
	dateGenerator(tick, float64(d), float64(m), float64(y), date, month, year, doy)
	base := refDayNumber(d, m, y)
	vsym.Reach("after-run")
	for k := 0; k < T; k++ {
		dk, mk, yk := int(date.Get1(k)), int(month.Get1(k)), int(year.Get1(k))
		vsym.Assert(float64(dk) == date.Get1(k) && float64(mk) == month.Get1(k) && float64(yk) == year.Get1(k), "outputs-are-integers")
		vsym.Assert(refValidDate(dk, mk, yk), "emitted-date-valid")
		vsym.Assert(refDayNumber(dk, mk, yk) == base+k, "successive-days")
		vsym.Assert(int(doy.Get1(k)) == refDayNumber(dk, mk, yk)-refDayNumber(1, 1, yk)+1, "day-of-year")
		vsym.Assert(float64(int(doy.Get1(k))) == doy.Get1(k), "day-of-year-integer")
	}
}

// H_C19_two_steps: from an arbitrary valid start date (year in [1,1e9]) the generator emits
// the start date and its successor; since the successor is again an arbitrary valid date this
// is the inductive step for runs of any length.
//vsym:prop=C19 tier=quick ints=int floats=real unwind=40 timeout=60
func H_C19_two_steps() { c19run(2) }

// H_C19_four_steps: direct bounded run of 4 timesteps (crosses month and year ends twice at most).
//vsym:prop=C19 tier=thorough ints=int floats=real unwind=40 timeout=120
func H_C19_four_steps() { c19run(4) }

// c19long: a direct run of T days from the concrete day/month (d0, m0) of a symbolic year y in
// [1, 1e9] whose leap pattern (y, y+1, y+2, y+3) is fixed by `leapAt` (-1: none of them is a leap
// year - only possible around a century that is not a multiple of 400; k: exactly y+k is).  With
// the pattern assumed, every leap-year test in the generator is decided (directive prune=all), so
// the run is one path; every emitted date, month, year and day of year is compared with the civil
// calendar walked day by day under the same pattern.  Unlike the two-step inductive harness this one sees whatever the loop
// carries from one iteration to the next besides (day, month, year) - e.g. a month-length table
// updated at year ends.
func c19long(d0, m0, T, leapAt int) {
	y := vsym.Int("y")
	vsym.Assume(y >= 1 && y <= 1000000000)
	for k := 0; k < 4; k++ {
		vsym.Assume(refLeap(y+k) == (k == leapAt))
	}
	tick := data.NewArray1DFloat64(T)
	date := data.NewArray1DFloat64(T)
	month := data.NewArray1DFloat64(T)
	year := data.NewArray1DFloat64(T)
	doy := data.NewArray1DFloat64(T)
	dateGenerator(tick, float64(d0), float64(m0), float64(y), date, month, year, doy)
	vsym.Reach("after-run")
	// the reference: the civil calendar walked day by day with the assumed leap pattern (the
	// pattern itself is tied to the Gregorian rule by the assumptions above)
	ed, em, ej := d0, m0, 0
	for k := 0; k < T; k++ {
		ml := [12]int{31, 28, 31, 30, 31, 30, 31, 31, 30, 31, 30, 31}
		if ej == leapAt {
			ml[1] = 29
		}
		edoy := ed
		for i := 0; i < em-1; i++ {
			edoy += ml[i]
		}
		vsym.Assert(date.Get1(k) == float64(ed), "day-of-month")
		vsym.Assert(month.Get1(k) == float64(em), "month")
		vsym.Assert(year.Get1(k) == float64(y+ej), "year")
		vsym.Assert(doy.Get1(k) == float64(edoy), "day-of-year")
		ed++
		if ed > ml[em-1] {
			ed, em = 1, em+1
		}
		if em > 12 {
			em, ej = 1, ej+1
		}
	}
}

// H_C19_long_leap_then_common: 31 December of a leap year, 430 days (through the whole next year
// and the February after it).
//vsym:prop=C19 tier=quick ints=int floats=real unwind=900 timeout=60 prune=all wall=600
func H_C19_long_leap_then_common() { c19long(31, 12, 430, 0) }

// H_C19_long_common_then_leap: 31 December of the year before a leap year, 430 days.
//vsym:prop=C19 tier=quick ints=int floats=real unwind=900 timeout=60 prune=all wall=600
func H_C19_long_common_then_leap() { c19long(31, 12, 430, 1) }

// H_C19_long_leap_in_two: 31 December two years before a leap year, 430 days (29 February reached
// in the second year after the start).
//vsym:prop=C19 tier=quick ints=int floats=real unwind=900 timeout=60 prune=all wall=600
func H_C19_long_leap_in_two() { c19long(31, 12, 430, 2) }

// H_C19_long_no_leap: four common years in a row (around a century not divisible by 400), 430 days.
//vsym:prop=C19 tier=quick ints=int floats=real unwind=900 timeout=60 prune=all wall=600
func H_C19_long_no_leap() { c19long(31, 12, 430, -1) }

// H_C19_long_three_years_*: 1 January, 1200 days (three year ends), each leap pattern.
//vsym:prop=C19 tier=quick ints=int floats=real unwind=2000 timeout=60 prune=all wall=600
func H_C19_long_three_years_leap0() { c19long(1, 1, 1200, 0) }

//vsym:prop=C19 tier=quick ints=int floats=real unwind=2000 timeout=60 prune=all wall=600
func H_C19_long_three_years_leap1() { c19long(1, 1, 1200, 1) }

//vsym:prop=C19 tier=quick ints=int floats=real unwind=2000 timeout=60 prune=all wall=600
func H_C19_long_three_years_leap2() { c19long(1, 1, 1200, 2) }

//vsym:prop=C19 tier=quick ints=int floats=real unwind=2000 timeout=60 prune=all wall=600
func H_C19_long_three_years_leap3() { c19long(1, 1, 1200, 3) }

//vsym:prop=C19 tier=quick ints=int floats=real unwind=2000 timeout=60 prune=all wall=600
func H_C19_long_three_years_noleap() { c19long(1, 1, 1200, -1) }
