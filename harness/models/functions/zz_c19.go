package functions

import (
	"github.com/flowmatters/openwater-core/data"
	"github.com/flowmatters/openwater-core/zzverif/vsym"
)

// independent reference: days since 0000-03-01 style civil-day algorithm (proleptic Gregorian)
func refDayNumber(d, m, y int) int {
	// shift so the year starts in March
	yy := y
	mm := m
	if mm <= 2 {
		yy = yy - 1
		mm = mm + 12
	}
	// yy >= 0 here because y >= 1
	era := yy / 400
	yoe := yy - era*400
	doy := (153*(mm-3)+2)/5 + d - 1
	doe := yoe*365 + yoe/4 - yoe/100 + doy
	return era*146097 + doe
}

func refLeap(y int) bool { return (y%4 == 0 && y%100 != 0) || y%400 == 0 }

func refValidDate(d, m, y int) bool {
	if y < 1 || m < 1 || m > 12 || d < 1 {
		return false
	}
	if m == 2 {
		if refLeap(y) {
			return d <= 29
		}
		return d <= 28
	}
	if m == 4 || m == 6 || m == 9 || m == 11 {
		return d <= 30
	}
	return d <= 31
}

func c19run(T int) {
	d, m, y := vsym.Int("d"), vsym.Int("m"), vsym.Int("y")
	vsym.Assume(y >= 1 && y <= 1000000000)
	vsym.Assume(refValidDate(d, m, y))
	tick := data.NewArray1DFloat64(T)
	date := data.NewArray1DFloat64(T)
	month := data.NewArray1DFloat64(T)
	year := data.NewArray1DFloat64(T)
	doy := data.NewArray1DFloat64(T)
	dateGenerator(tick, float64(d), float64(m), float64(y), date, month, year, doy)
	base := refDayNumber(d, m, y)
	vsym.Reach("after-run")
	for k := 0; k < T; k++ {
		dk, mk, yk := int(date.Get1(k)), int(month.Get1(k)), int(year.Get1(k))
		vsym.Assert(float64(dk) == date.Get1(k) && float64(mk) == month.Get1(k) && float64(yk) == year.Get1(k), "outputs-are-integers")
		vsym.Assert(refValidDate(dk, mk, yk), "emitted-date-valid")
		vsym.Assert(refDayNumber(dk, mk, yk) == base+k, "successive-days")
		vsym.Assert(int(doy.Get1(k)) == refDayNumber(dk, mk, yk)-refDayNumber(1, 1, yk)+1, "day-of-year")
		vsym.Assert(float64(int(doy.Get1(k))) == doy.Get1(k), "day-of-year-integer")
	}
}

// H_C19_two_steps: from an arbitrary valid start date (year in [1,1e9]) the generator emits
// the start date and its successor; since the successor is again an arbitrary valid date this
// is the inductive step for runs of any length.
//vsym:prop=C19 tier=quick ints=int floats=real unwind=40 timeout=60
func H_C19_two_steps() { c19run(2) }

// H_C19_four_steps: direct bounded run of 4 timesteps (crosses month and year ends twice at most).
//vsym:prop=C19 tier=thorough ints=int floats=real unwind=40 timeout=120
func H_C19_four_steps() { c19run(4) }
