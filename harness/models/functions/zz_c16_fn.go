package functions

import (
	"github.com/flowmatters/openwater-core/data"
	"github.com/flowmatters/openwater-core/zzverif/vsym"
)

func fnSeries(tag string, T int) data.ND1Float64 {
	a := data.NewArray1DFloat64(T)
	for i := 0; i < T; i++ {
		a.Set1(i, vsym.Float64(tag))
	}
	return a
}

const fnT = 2

// H_C16_partition_demand: IEEE doubles (NaN excluded): extraction = min(demand, input) so never
// exceeds either; outflow >= 0; outflow + extraction = input whenever input >= extraction.
//vsym:prop=C16 tier=quick ints=int floats=real
func H_C16_partition_demand() {
	in, dm := fnSeries("in", fnT), fnSeries("demand", fnT)
	out, ext := data.NewArray1DFloat64(fnT), data.NewArray1DFloat64(fnT)
	partitionDemand(in, dm, out, ext)
	vsym.Reach("run")
	for t := 0; t < fnT; t++ {
		vsym.Assert(ext.Get1(t) <= dm.Get1(t) && ext.Get1(t) <= in.Get1(t), "extraction-at-most-demand-and-availability")
		vsym.Assert(out.Get1(t) >= 0, "outflow-nonnegative")
		vsym.Assert(out.Get1(t)+ext.Get1(t) == in.Get1(t), "outflow-plus-extraction-is-input")
		if dm.Get1(t) >= 0 && in.Get1(t) >= 0 {
			vsym.Assert(ext.Get1(t) >= 0, "extraction-nonnegative-for-nonnegative-demand")
		}
	}
}

// H_C16_gate: output is the input where trigger > 0 and zero elsewhere.
//vsym:prop=C16 tier=quick ints=int floats=real
func H_C16_gate() {
	tr, in := fnSeries("trigger", fnT), fnSeries("in", fnT)
	out := data.NewArray1DFloat64(fnT)
	gate(tr, in, out)
	vsym.Reach("run")
	for t := 0; t < fnT; t++ {
		if tr.Get1(t) > 0 {
			vsym.Assert(out.Get1(t) == in.Get1(t), "open-gate-passes-input")
		} else {
			vsym.Assert(out.Get1(t) == 0, "closed-gate-outputs-zero")
		}
	}
}

// H_C16_sum_input: Sum is the element-wise sum; Input is the identity.
//vsym:prop=C16 tier=quick ints=int floats=real
func H_C16_sum_input() {
	a, b := fnSeries("a", fnT), fnSeries("b", fnT)
	out := data.NewArray1DFloat64(fnT)
	sum(a, b, out)
	cp := data.NewArray1DFloat64(fnT)
	inputNode(a, cp)
	vsym.Reach("run")
	for t := 0; t < fnT; t++ {
		vsym.Assert(out.Get1(t) == a.Get1(t)+b.Get1(t), "sum-is-elementwise")
		vsym.Assert(cp.Get1(t) == a.Get1(t), "input-is-identity")
	}
}

// H_C16_compute_proportion: n/d, or the configured value when d = 0.
//vsym:prop=C16 tier=quick ints=int floats=real
func H_C16_compute_proportion() {
	n, d := fnSeries("n", fnT), fnSeries("d", fnT)
	z := vsym.Float64("onzero")
	out := data.NewArray1DFloat64(fnT)
	computeProportion(n, d, z, out)
	vsym.Reach("run")
	for t := 0; t < fnT; t++ {
		if d.Get1(t) == 0 {
			vsym.Assert(out.Get1(t) == z, "zero-denominator-gives-configured-value")
		} else {
			vsym.AssertNear(out.Get1(t)*d.Get1(t), n.Get1(t), 1e-9, 1e-9, "proportion-times-denominator-is-numerator")
		}
	}
}
