package conversion

import (
	"github.com/flowmatters/openwater-core/data"
	"github.com/flowmatters/openwater-core/zzverif/vsym"
)

func cvSeries(tag string, T int) data.ND1Float64 {
	a := data.NewArray1DFloat64(T)
	for i := 0; i < T; i++ {
		a.Set1(i, vsym.Float64(tag))
	}
	return a
}

const cvT = 2
const cvAbs = 1e-9
const cvRel = 1e-9

// H_C16_fixed_partition: out1 + out2 = in, out1 = in*fraction, every timestep, any values.
//vsym:prop=C16 tier=quick ints=int floats=real
func H_C16_fixed_partition() {
	in := cvSeries("in", cvT)
	f := vsym.Float64("fraction")
	o1, o2 := data.NewArray1DFloat64(cvT), data.NewArray1DFloat64(cvT)
	fixedPartition(in, f, o1, o2)
	vsym.Reach("run")
	for t := 0; t < cvT; t++ {
		vsym.AssertNear(o1.Get1(t)+o2.Get1(t), in.Get1(t), cvAbs, cvRel, "outputs-sum-to-input")
		vsym.AssertNear(o1.Get1(t), in.Get1(t)*f, cvAbs, cvRel, "first-output-is-fraction")
	}
}

// H_C16_variable_partition: same with a per-timestep fraction series.
//vsym:prop=C16 tier=quick ints=int floats=real
func H_C16_variable_partition() {
	in, fr := cvSeries("in", cvT), cvSeries("fraction", cvT)
	o1, o2 := data.NewArray1DFloat64(cvT), data.NewArray1DFloat64(cvT)
	variablePartition(in, fr, o1, o2)
	vsym.Reach("run")
	for t := 0; t < cvT; t++ {
		vsym.AssertNear(o1.Get1(t)+o2.Get1(t), in.Get1(t), cvAbs, cvRel, "outputs-sum-to-input")
		vsym.AssertNear(o1.Get1(t), in.Get1(t)*fr.Get1(t), cvAbs, cvRel, "first-output-is-fraction")
	}
}

func cvRating(n int) {
	T := 2
	in := cvSeries("in", T)
	xs, ys := data.NewArray1DFloat64(n), data.NewArray1DFloat64(n)
	for i := 0; i < n; i++ {
		xs.Set1(i, vsym.Float64("x"))
		ys.Set1(i, vsym.Float64("y"))
		if i > 0 {
			vsym.Assume(xs.Get1(i) > xs.Get1(i-1))
		}
	}
	// inside the table (outside it the model panics by design: Piecewise reports an error)
	for t := 0; t < T; t++ {
		vsym.Assume(in.Get1(t) >= xs.Get1(0) && in.Get1(t) <= xs.Get1(n-1))
	}
	o1, o2 := data.NewArray1DFloat64(T), data.NewArray1DFloat64(T)
	ratingPartition(in, n, xs, ys, o1, o2)
	vsym.Reach("run")
	for t := 0; t < T; t++ {
		vsym.AssertNear(o1.Get1(t)+o2.Get1(t), in.Get1(t), cvAbs, cvRel, "outputs-sum-to-input")
		// at a knot the proportion is the table value
		for i := 0; i < n; i++ {
			if in.Get1(t) == xs.Get1(i) {
				vsym.AssertNear(o1.Get1(t), in.Get1(t)*ys.Get1(i), cvAbs, cvRel, "knot-uses-table-proportion")
			}
		}
	}
}

// H_C16_rating_partition_2: rating-curve partition, 2-point table (strictly increasing x), input inside the table.
//vsym:prop=C16 tier=quick ints=int floats=real
func H_C16_rating_partition_2() { cvRating(2) }

// H_C16_rating_partition_3: 3-point table.
//vsym:prop=C16 tier=quick ints=int floats=real
func H_C16_rating_partition_3() { cvRating(3) }

// H_C16_rating_partition_4: 4-point table.
//vsym:prop=C16 tier=thorough ints=int floats=real
func H_C16_rating_partition_4() { cvRating(4) }

// H_C16_scaling: ApplyScalingFactor / DeliveryRatio kernel: out = in*scale into a zeroed output.
//vsym:prop=C16 tier=quick ints=int floats=real
func H_C16_scaling() {
	in := cvSeries("in", cvT)
	s := vsym.Float64("scale")
	out := data.NewArray1DFloat64(cvT)
	applyScaling(in, s, out)
	vsym.Reach("run")
	for t := 0; t < cvT; t++ {
		vsym.AssertNear(out.Get1(t), in.Get1(t)*s, cvAbs, cvRel, "output-is-input-times-scale")
	}
}

// H_C16_depth_to_rate: out = in[mm] * 1e-3 * area[m2] / dt[s] (zero area gives zero into a zeroed output).
//vsym:prop=C16 tier=quick ints=int floats=real
func H_C16_depth_to_rate() {
	in := cvSeries("in", cvT)
	dt, area := vsym.Float64("deltaT"), vsym.Float64("area")
	vsym.Assume(dt > 0)
	out := data.NewArray1DFloat64(cvT)
	depthToRate(in, dt, area, out)
	vsym.Reach("run")
	for t := 0; t < cvT; t++ {
		vsym.AssertNear(out.Get1(t)*dt, in.Get1(t)*0.001*area, cvAbs, cvRel, "rate-times-dt-is-depth-times-area")
	}
}
