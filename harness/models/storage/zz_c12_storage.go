package storage

import (
	"github.com/flowmatters/openwater-core/data"
	"github.com/flowmatters/openwater-core/zzverif/vsym"
)

func s12nn(tag string) float64 {
	v := vsym.Float64(tag)
	vsym.Assume(v >= 0)
	return v
}
func s12one(v float64) data.ND1Float64 {
	a := data.NewArray1DFloat64(1)
	a.Set1(0, v)
	return a
}
func s12out(T int) data.ND1Float64 { return data.NewArray1DFloat64(T) }

// H_C12_trapping: StorageParticulateTrapping one step, working volume > 0 (stated assumption: an
// exactly empty reservoir divides by zero): in*dt + stored = trapped + out*dt + stored'.
//vsym:prop=C12 tier=quick ints=int floats=real timeout=120
func H_C12_trapping() {
	in, inQ, outQ, vol, stored := s12nn("inMass"), s12nn("inflow"), s12nn("outflow"), s12nn("volume"), s12nn("stored")
	dt := vsym.Float64("dt")
	vsym.Assume(dt > 0 && outQ*dt+vol > 0)
	names := []string{"capacity", "length", "subtractor", "multiplier", "ldFactor", "ldPower"}
	p := make([]float64, len(names))
	for i := range p {
		p[i] = vsym.Float64(names[i])
		vsym.Assume(p[i] >= 0)
	}
	vsym.Assume(p[4] > 0)
	trapped, outL := s12out(1), s12out(1)
	stored2 := storageParticulateTrapping(s12one(in), s12one(inQ), s12one(outQ), s12one(vol), stored, dt, p[0], p[1], p[2], p[3], p[4], p[5], trapped, outL)
	vsym.Reach("run")
	vsym.Assert(trapped.Get1(0) >= 0 && outL.Get1(0) >= 0 && stored2 >= 0, "loads-and-store-nonnegative")
	vsym.Assert(trapped.Get1(0) <= in*dt, "trapped-at-most-incoming")
	vsym.AssertNear(in*dt+stored, trapped.Get1(0)+outL.Get1(0)*dt+stored2, 1e-9, 1e-9, "mass-balance-closes")
}

// H_C12_trapall: StorageTrapAll over T=3: everything that comes in plus the initial store is reported as trapped, nothing leaves.
//vsym:prop=C12 tier=quick ints=int floats=real
func H_C12_trapall() {
	T := 3
	in := data.NewArray1DFloat64(T)
	sumIn := 0.0
	for t := 0; t < T; t++ {
		v := s12nn("inMass")
		in.Set1(t, v)
		sumIn += v
	}
	stored := s12nn("stored")
	trapped, outL := s12out(T), s12out(T)
	q := data.NewArray1DFloat64(T)
	stored2 := storageTrapAll(in, q, q, q, stored, trapped, outL)
	vsym.Reach("run")
	sumT := 0.0
	for t := 0; t < T; t++ {
		sumT += trapped.Get1(t)
		vsym.Assert(outL.Get1(t) == 0, "nothing-leaves")
	}
	vsym.AssertNear(sumT+stored2, sumIn+stored, 1e-9, 1e-9, "mass-balance-closes")
	vsym.Assert(stored2 == 0, "nothing-remains-stored")
}

// H_C12_dissolved_nodecay: StorageDissolvedDecay with decay disabled: conservative lumped transport.
//vsym:prop=C12 tier=quick ints=int floats=real
func H_C12_dissolved_nodecay() {
	in, inQ, outQ, vol, stored := s12nn("inMass"), s12nn("inflow"), s12nn("outflow"), s12nn("volume"), s12nn("stored")
	dt := vsym.Float64("dt")
	vsym.Assume(dt > 0)
	ari, bf, mfr := s12nn("ari"), s12nn("bankFull"), s12nn("residence")
	dec, outL := s12out(1), s12out(1)
	stored2 := storageDissolvedDecay(s12one(in), s12one(inQ), s12one(outQ), s12one(vol), stored, dt, 0, ari, bf, mfr, dec, outL)
	vsym.Reach("run")
	vsym.Assert(outL.Get1(0) >= 0 && stored2 >= 0, "loads-and-store-nonnegative")
	if outQ*dt+vol >= 0.01 {
		vsym.AssertNear(in*dt+stored, outL.Get1(0)*dt+dec.Get1(0)+stored2, 1e-9, 1e-9, "mass-balance-closes")
	}
}
