package storage

import (
	"math"
	"github.com/flowmatters/openwater-core/zzverif/vsym"
)

func c13storage(which int, balanceOnly bool) { c13storagex(which, balanceOnly, 86400.0) }

func c13storagex(which int, balanceOnly bool, dt float64) {
	if balanceOnly {
		// the balance is an identity in the per-sub-step areas and releases, whatever the tables
		// say: table look-ups become uninterpreted functions, panics are left to the sibling harness
		vsym.Summarise("Piecewise")
		vsym.Summarise("NoImplicit")
	}
	if !balanceOnly {
		// the model's own panics (negative volume after an accepted sub-step, storage.go) could not
		// be proved unreachable within the time limit: they are searched for, not proved absent
		vsym.Summarise("HuntImplicit")
	}
	n, lv, vol, ar, mn, mx := c13fixedTables(which)
	rain, pet, inflow, demand := vsym.Float64("rain"), vsym.Float64("pet"), vsym.Float64("inflow"), vsym.Float64("demand")
	vsym.Assume(rain >= 0 && rain <= 500 && pet >= 0 && pet <= 50 && inflow >= 0 && inflow <= 200 && demand >= 0 && demand <= 200)
	v0 := vsym.Float64("initialVolume")
	vsym.Assume(v0 >= 0 && v0 <= 4000000)
	if which == 2 {
		vsym.Assume(v0 <= 2000)
	}
	if which == 3 {
		// no evaporation in this harness: net evaporation from an empty flat-bottomed storage
		// crashes the model (known finding C13-evaporation-from-empty-flat-bottom-panics, shown by
		// H_C13_known_empty_evaporation); everything else about such tables is checked here
		vsym.Assume(pet == 0)
	}
	// the two "target" inputs (flood air space / minimum operating volume) are arbitrary: nothing in
	// the property lets them move the spill threshold away from the full-supply volume or change
	// the release rules
	tminV, tminC := vsym.Float64("targetMinimumVolume"), vsym.Float64("targetMinimumCapacity")
	vsym.Assume(tminV >= 0 && tminV <= 4000000 && tminC >= 0 && tminC <= 4000000)
	volTS, outTS, rainV, evapV := c13one(0), c13one(0), c13one(0), c13one(0)
	v1, l1, a1 := storageWaterBalance(c13one(rain), c13one(pet), c13one(inflow), c13one(demand), c13one(tminV), c13one(tminC),
		v0, 0, 0, dt, n, lv, vol, ar, mn, mx, volTS, outTS, rainV, evapV)
	vsym.Reach("returned")
	if balanceOnly {
		vsym.AssertNear(v1-v0, (inflow-outTS.Get1(0))*dt+(rainV.Get1(0)-evapV.Get1(0))*dt, 1e-6, 1e-9, "water-balance-with-reported-atmospheric-volumes")
		return
	}
	// concrete-table counterexample search for the balance (its proof, for any table, is H_C13_balance)
	vsym.HuntNear(v1-v0, (inflow-outTS.Get1(0))*dt+(rainV.Get1(0)-evapV.Get1(0))*dt, 1e-6, 1e-9, "water-balance-with-reported-atmospheric-volumes")
	vsym.Assert(v1 >= 0, "volume-nonnegative")
	vsym.Assert(volTS.Get1(0) == v1, "reported-volume-is-final-volume")
	vsym.Assert(outTS.Get1(0) >= 0, "outflow-nonnegative")
	vsym.Assert(rainV.Get1(0) >= 0 && evapV.Get1(0) >= 0, "reported-atmospheric-volumes-nonnegative")
	// final level and area are the table values of the final volume
	vsym.AssertNear(l1, c13interp(v1, vol, lv, n), 1e-9, 1e-9, "final-level-is-table-value")
	vsym.AssertNear(a1, c13interp(v1, vol, ar, n), 1e-9, 1e-9, "final-area-is-table-value")
	// release rules (whole step average): between the lowest min-release and the highest
	// max-release of the curve plus spill; no spill unless the volume reached the top of the curve
	vmax := vol.Get1(n - 1)
	if v1 < vmax && v0 <= vmax {
		vsym.Assert(outTS.Get1(0) <= mx.Get1(n-1)+1e-9 || outTS.Get1(0) <= demand+1e-9, "release-at-most-max-curve-or-demand-when-not-spilling")
	}
	vsym.Assert(outTS.Get1(0) >= mn.Get1(0)-1e-9 || v1 == 0, "release-at-least-lowest-min-release")
	// the explored paths (loops cut at one iteration) take the whole day as ONE sub-step without
	// halving; the volumes the model evaluates the release curves at are then the initial volume
	// and its own predictor tB (initial volume + (inflow - release(v0) + net atmospheric flux on the
	// mid-step area) x dt), transcribed here from the documented scheme.  Both are 30 s
	// counterexample searches followed by native probing (incl. degenerate corner points), not
	// proofs: the solver does not decide them on the fixed tables within the quick budget
	atm := (rain - pet) / dt * 0.001
	rel := func(v float64) float64 {
		lo, hi := c13interp(v, vol, mn, n), c13interp(v, vol, mx, n)
		return math.Max(lo, math.Min(hi, demand))
	}
	r0 := rel(v0)
	tA := v0 + ((inflow-r0)+atm*c13interp(v0, vol, ar, n))*dt
	tB := v0 + ((inflow-r0)+atm*c13interp((tA+v0)/2, vol, ar, n))*dt
	if tA >= 0 && tB >= 0 {
		lo := math.Min(c13interp(v0, vol, mn, n), c13interp(tB, vol, mn, n))
		vsym.Hunt(outTS.Get1(0) >= lo-1e-9, "release-at-least-min-curve-over-volumes-traversed")
		inside := demand >= math.Max(c13interp(v0, vol, mn, n), c13interp(tB, vol, mn, n)) && demand <= math.Min(c13interp(v0, vol, mx, n), c13interp(tB, vol, mx, n))
		if inside && v1 < vmax && v0 <= vmax {
			vsym.HuntNear(outTS.Get1(0), demand, 1e-9, 1e-9, "release-equals-demand-when-between-the-curves")
		}
	}
}

// H_C13_storage_2pt: one daily timestep of the Storage model on a fixed 2-point level-volume-area
// table / release curves; inflow, demand in [0,200] m3/s, rain in [0,500] mm, PET in [0,50] mm and
// initial volume in [0, 2 x full supply] symbolic.  Sub-stepping loops are cut after 3 iterations
// each (stated bound: steps needing more refinement are outside the claim).
//vsym:prop=C13 tier=quick ints=int floats=real timeout=120 cut=1 unwind=12 maxruns=400
func H_C13_storage_2pt() { c13storage(0, false) }

// H_C13_storage_3pt: fixed 3-point tables.
//vsym:prop=C13 tier=thorough ints=int floats=real timeout=120 cut=1 unwind=12 maxruns=400
func H_C13_storage_3pt() { c13storage(1, false) }

// H_C13_storage_smallpool: fixed 2-point tables of a 1000 m3 pool with a 10 m3/s spillway (the
// spill clamp "never below the top of the curve" binds here).
//vsym:prop=C13 tier=quick ints=int floats=real timeout=60 cut=1 unwind=12 maxruns=400
func H_C13_storage_smallpool() { c13storage(2, false) }

// H_C13_storage_datum: fixed 2-point tables whose level and area do not start at zero (elevation
// datum 100 m, flat bottom of 5 ha): level/area of an EMPTY storage are the first table entries,
// and rain on the empty bed is collected.
//vsym:prop=C13 tier=quick ints=int floats=real timeout=60 cut=1 unwind=12 maxruns=400
func H_C13_storage_datum() { c13storage(3, false) }

// H_C13_balance: water balance with the reported rainfall/evaporation volumes, tables abstracted
// to uninterpreted functions (so it holds for ANY table), sub-stepping loops cut after 2 iterations.
//vsym:prop=C13 tier=quick ints=int floats=real timeout=120 cut=2 unwind=12 maxruns=400
func H_C13_balance() { c13storage(1, true) }

// H_C13_known_empty_evaporation: the concrete scenario of the known finding
// C13-evaporation-from-empty-flat-bottom-panics: an EMPTY storage whose area table does not start
// at zero (flat bottom, 5 ha), no inflow, no rain, 5 mm of PET.  Evaporation is computed from the
// table area although there is no water; the sub-step is halved down to its minimum and the model
// panics ("testVol < 0.0 and subtimestep <= MIN_TIMESTEP_SECONDS") instead of staying empty.
//vsym:prop=C13 tier=quick ints=int floats=real timeout=60 unwind=200 maxruns=50
func H_C13_known_empty_evaporation() {
	n, lv, vol, ar, mn, mx := c13fixedTables(3)
	volTS, outTS, rainV, evapV := c13one(0), c13one(0), c13one(0), c13one(0)
	vsym.Reach("about-to-run")
	v1, _, _ := storageWaterBalance(c13one(0), c13one(5), c13one(0), c13one(0), c13one(0), c13one(0),
		0, 0, 0, 86400, n, lv, vol, ar, mn, mx, volTS, outTS, rainV, evapV)
	vsym.Assert(v1 >= 0, "volume-nonnegative")
}

// H_C13_storage_short_step: the small-pool tables with a timestep of 2 s (the documented range of
// DeltaT is [1, 86400] s; 2 s is below the model's minimum sub-step of 6 s): same obligations.
//vsym:prop=C13 tier=quick ints=int floats=real timeout=60 cut=1 unwind=12 maxruns=400
func H_C13_storage_short_step() { c13storagex(2, false, 2) }

// H_C13_storage_hourly: the 2-point tables with an hourly timestep.
//vsym:prop=C13 tier=quick ints=int floats=real timeout=60 cut=1 unwind=12 maxruns=400
func H_C13_storage_hourly() { c13storagex(0, false, 3600) }
