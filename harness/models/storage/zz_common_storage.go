package storage

import (
	"github.com/flowmatters/openwater-core/data"
	"github.com/flowmatters/openwater-core/zzverif/vsym"
)

// c13tables: nLVA symbolic points: volumes strictly increasing from >= 0, levels/areas
// non-decreasing and >= 0, 0 <= minRelease <= maxRelease (both non-decreasing).
func c13tables(n int) (lv, vol, ar, mn, mx data.ND1Float64) {
	mk := func() data.ND1Float64 { return data.NewArray1DFloat64(n) }
	lv, vol, ar, mn, mx = mk(), mk(), mk(), mk(), mk()
	for i := 0; i < n; i++ {
		l, v, a, r0, r1 := vsym.Float64("level"), vsym.Float64("vol"), vsym.Float64("area"), vsym.Float64("minRel"), vsym.Float64("maxRel")
		vsym.Assume(l >= 0 && v >= 0 && a >= 0 && r0 >= 0 && r1 >= r0)
		lv.Set1(i, l)
		vol.Set1(i, v)
		ar.Set1(i, a)
		mn.Set1(i, r0)
		mx.Set1(i, r1)
		if i > 0 {
			vsym.Assume(v > vol.Get1(i-1) && l >= lv.Get1(i-1) && a >= ar.Get1(i-1) && r0 >= mn.Get1(i-1) && r1 >= mx.Get1(i-1))
		}
	}
	return
}

func c13one(v float64) data.ND1Float64 {
	a := data.NewArray1DFloat64(1)
	a.Set1(0, v)
	return a
}

// linear interpolation of a table at x (harness-side reference), capped at the ends
func c13interp(x float64, xs, ys data.ND1Float64, n int) float64 {
	if x <= xs.Get1(0) {
		return ys.Get1(0)
	}
	r := ys.Get1(n - 1)
	for i := n - 2; i >= 0; i-- {
		x0, x1 := xs.Get1(i), xs.Get1(i+1)
		if x <= x1 {
			r = ys.Get1(i) + (x-x0)/(x1-x0)*(ys.Get1(i+1)-ys.Get1(i))
		}
	}
	return r
}

// concrete, realistic tables (stated bound: the table VALUES are fixed, everything hydrological
// is symbolic).  which = 0: 2 points, 1: 3 points.
func c13fixedTables(which int) (n int, lv, vol, ar, mn, mx data.ND1Float64) {
	var L, V, A, R0, R1 []float64
	if which == 2 {
		// a small pool behind a large spillway: spill capacity per step exceeds the pool volume
		L, V, A, R0, R1 = []float64{0, 2}, []float64{0, 1000}, []float64{0, 500}, []float64{0, 10}, []float64{0, 20}
	} else if which == 3 {
		// levels against an elevation datum and a flat bottom: the first level and area entries are
		// NOT zero, so an empty storage still has a level and a water surface
		L, V, A, R0, R1 = []float64{100, 120}, []float64{0, 2000000}, []float64{50000, 300000}, []float64{0, 2}, []float64{0, 40}
	} else if which == 0 {
		L, V, A, R0, R1 = []float64{0, 20}, []float64{0, 2000000}, []float64{0, 300000}, []float64{0, 2}, []float64{0, 40}
	} else {
		L, V, A, R0, R1 = []float64{0, 10, 20}, []float64{0, 1000000, 3000000}, []float64{0, 200000, 300000}, []float64{0, 0, 5}, []float64{0, 20, 50}
	}
	n = len(L)
	mk := func(x []float64) data.ND1Float64 {
		a := data.NewArray1DFloat64(n)
		for i, v := range x {
			a.Set1(i, v)
		}
		return a
	}
	return n, mk(L), mk(V), mk(A), mk(R0), mk(R1)
}

