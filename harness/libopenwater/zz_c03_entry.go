//go:build go1.18

package main

//vsym:formodels

import (
	"unsafe"

	"github.com/flowmatters/openwater-core/data"
	"github.com/flowmatters/openwater-core/data/cdata"
	"github.com/flowmatters/openwater-core/sim"
	"github.com/flowmatters/openwater-core/zzverif/vsym"
)

// zzEntry_MODELNAME: calls the exported C entry point through its function value, so that the
// cgo types (*C.char, *C.double, C.int) are inferred and this file needs no `import "C"`.
func zzEntry_MODELNAME[CH any, DB any, IN ~int32](f func(*CH, *DB, IN, IN, IN, *DB, IN, IN, *DB, IN, IN, *DB, IN, IN, IN, bool),
	name unsafe.Pointer, in unsafe.Pointer, nIS, nI, nT int32, par unsafe.Pointer, nP, nPS int32,
	st unsafe.Pointer, nC, nS int32, out unsafe.Pointer, nOC, nO, nOT int32, init bool) {
	f((*CH)(name), (*DB)(in), IN(nIS), IN(nI), IN(nT), (*DB)(par), IN(nP), IN(nPS), (*DB)(st), IN(nC), IN(nS), (*DB)(out), IN(nOC), IN(nO), IN(nOT), init)
}

// H_C03_entry_MODELNAME: the real RunSingleModel (libopenwater/single.go, the exported C entry
// point) on caller buffers (ghost C memory of exactly the announced sizes; every access outside
// is a failed obligation) versus the Go API on Go-allocated arrays holding the same symbolic
// values: 2 cells, 2 parameter sets, 2 input blocks, 2 timesteps; caller-supplied states.
//vsym:prop=C03 tier=quick ints=int floats=real timeout=60 wall=240 cut=3 unwind=80
func H_C03_entry_MODELNAME() { c03entry_MODELNAME(false, 2) }

// H_C03_entryinit_MODELNAME: the same with initStates = true: the library initialises the
// states itself and copies the final states back into the caller's buffer; 3 parameter sets for
// 2 cells (a parameter table wider than the run).
//vsym:prop=C03 tier=quick ints=int floats=real timeout=60 wall=240 cut=3 unwind=80
func H_C03_entryinit_MODELNAME() { c03entry_MODELNAME(true, 3) }

func c03entry_MODELNAME(initStates bool, nSets int) {
	name := "MODELNAME"
	switch name {
	case "Sacramento", "Storage", "ClimateVariables", "GR4J", "Lag", "StorageRouting", "RatingCurvePartition":
		// heavy kernels, or models whose array lengths depend on parameter values / table
		// dimensions: exercised through the same wrapper template in package models (H_C03_cbacked_*)
		vsym.Reach("left-to-the-wrapper-level-harness")
		return
	}
	vsym.Summarise("NoKernelImplicit")
	const N, T, nBlocks = 2, 2, 2
	m := sim.Catalog[name]()
	desc := m.Description()
	if len(desc.Dimensions) > 0 {
		vsym.Reach("left-to-the-wrapper-level-harness")
		return
	}
	nI, nO, nP, nS := len(desc.Inputs), len(desc.Outputs), len(desc.Parameters), len(desc.States)
	cname := append([]byte(name), 0)
	inBuf := vsym.CBufFloat64("input", nBlocks*nI*T)
	parBuf := vsym.CBufFloat64("param", nP*nSets)
	stBuf := vsym.CBufFloat64("state", N*nS)
	// caller-owned output buffer with one spare timestep (larger than needed) unless the library
	// initialises the states: the announced output length then differs from the input length
	OT := T + 1
	if initStates {
		OT = T
	}
	outBuf := vsym.CBufFloat64("output", N*nO*OT)
	inC := cdata.NewFloat64CArray(inBuf, []int{nBlocks, nI, T}).(data.ND3Float64)
	parC := cdata.NewFloat64CArray(parBuf, []int{nP, nSets}).(data.ND2Float64)
	stC := cdata.NewFloat64CArray(stBuf, []int{N, nS}).(data.ND2Float64)
	outC := cdata.NewFloat64CArray(outBuf, []int{N, nO, OT}).(data.ND3Float64)
	// the same values in Go-allocated arrays, before the call
	inG, parG, stG := data.NewArray3DFloat64(nBlocks, nI, T), data.NewArray2DFloat64(nP, nSets), data.NewArray2DFloat64(N, nS)
	for b := 0; b < nBlocks; b++ {
		for i := 0; i < nI; i++ {
			for t := 0; t < T; t++ {
				v := inC.Get3(b, i, t)
				vsym.Assume(v >= 0 && v <= 1000000)
				inG.Set3(b, i, t, v)
			}
		}
	}
	for p := 0; p < nP; p++ {
		for c := 0; c < nSets; c++ {
			v := parC.Get2(p, c)
			pd := desc.Parameters[p]
			if pd.Range[0] < pd.Range[1] {
				vsym.Assume(v >= pd.Range[0] && v <= pd.Range[1])
			} else {
				vsym.Assume(v >= 0 && v <= 1000000)
			}
			parG.Set2(p, c, v)
		}
	}
	for c := 0; c < N; c++ {
		for s := 0; s < nS; s++ {
			stG.Set2(c, s, stC.Get2(c, s))
		}
	}
	for c := 0; c < N; c++ {
		for o := 0; o < nO; o++ {
			for t := 0; t < OT; t++ {
				outC.Set3(c, o, t, 0)
			}
		}
	}
	zzEntry_MODELNAME(RunSingleModel, unsafe.Pointer(&cname[0]),
		inBuf, nBlocks, int32(nI), T, parBuf, int32(nP), int32(nSets), stBuf, N, int32(nS), outBuf, N, int32(nO), int32(OT), initStates)
	vsym.Reach("entry-point-returned")
	// Go API on the Go-allocated copies
	g := sim.Catalog[name]()
	g.ApplyParameters(parG)
	var stRef data.ND2Float64 = stG
	if initStates {
		stRef = g.InitialiseStates(N)
	}
	outG := data.NewArray3DFloat64(N, nO, OT)
	g.Run(inG, stRef, outG)
	for c := 0; c < N; c++ {
		for o := 0; o < nO; o++ {
			for t := 0; t < OT; t++ {
				vsym.AssertAgree(outC.Get3(c, o, t), outG.Get3(c, o, t), 1e-12, 1e-12, "entry-point-outputs-equal-go-api")
			}
		}
		for s := 0; s < nS && s < stRef.Len(1); s++ {
			vsym.AssertAgree(stC.Get2(c, s), stRef.Get2(c, s), 1e-12, 1e-12, "entry-point-final-states-equal-go-api")
		}
	}
	for b := 0; b < nBlocks; b++ {
		for i := 0; i < nI; i++ {
			for t := 0; t < T; t++ {
				vsym.Assert(inC.Get3(b, i, t) == inG.Get3(b, i, t), "caller-input-buffer-unchanged")
			}
		}
	}
}
