// Package vsym is the harness support library.  Under the gosmt engine every function here
// is intercepted (symbolic inputs, assumptions, obligations).  Compiled natively the same
// functions read a counterexample file (VSYM_REPLAY) so that a harness is its own replay.
package vsym

import (
	"encoding/json"
	"fmt"
	"math"
	"os"
	"reflect"
	"strconv"
	"strings"
	"unsafe"
)

type replayFile struct {
	Harness string            `json:"harness"`
	Label   string            `json:"label"`
	Symbols map[string]string `json:"symbols"`
	Known   []string          `json:"known"`
	Tier    string            `json:"tier"`
}

var (
	loaded   bool
	rf       replayFile
	counts   = map[string]int{}
	Failures []string
	Observed = map[string]string{}
	cbufs    [][]byte
)

// AssumeFailed is the panic value used when a replay does not satisfy a harness assumption.
type AssumeFailed struct{}

func load() {
	if loaded {
		return
	}
	loaded = true
	rf.Symbols = map[string]string{}
	if p := os.Getenv("VSYM_REPLAY"); p != "" {
		b, err := os.ReadFile(p)
		if err != nil {
			panic(err)
		}
		if err := json.Unmarshal(b, &rf); err != nil {
			panic(err)
		}
	}
	if t := os.Getenv("VERIF_TIER"); t != "" && rf.Tier == "" {
		rf.Tier = t
	}
	if k := os.Getenv("VSYM_KNOWN"); k != "" {
		rf.Known = append(rf.Known, strings.Split(k, ",")...)
	}
}

// Reset clears per-run state (used by the replay test driver between harnesses).
func Reset() {
	counts = map[string]int{}
	Failures = nil
	Observed = map[string]string{}
}

func raw(name string) (string, bool) {
	load()
	counts[name]++
	if n := counts[name]; n > 1 {
		name = fmt.Sprintf("%s#%d", name, n)
	}
	v, ok := rf.Symbols[name]
	return v, ok
}

func Float64(name string) float64 {
	v, ok := raw(name)
	if !ok {
		return 0
	}
	switch v {
	case "NaN":
		return math.NaN()
	case "+Inf":
		return math.Inf(1)
	case "-Inf":
		return math.Inf(-1)
	}
	if strings.HasPrefix(v, "bits:") {
		u, _ := strconv.ParseUint(v[5:], 16, 64)
		return math.Float64frombits(u)
	}
	f, _ := strconv.ParseFloat(v, 64)
	return f
}
func Float32(name string) float32 { return float32(Float64(name)) }

func bigInt(name string) int64 {
	v, ok := raw(name)
	if !ok {
		return 0
	}
	i, err := strconv.ParseInt(v, 10, 64)
	if err != nil {
		u, _ := strconv.ParseUint(v, 10, 64)
		return int64(u)
	}
	return i
}
func Int(name string) int       { return int(bigInt(name)) }
func Int32(name string) int32   { return int32(bigInt(name)) }
func Int64(name string) int64   { return bigInt(name) }
func Uint(name string) uint     { return uint(bigInt(name)) }
func Uint32(name string) uint32 { return uint32(bigInt(name)) }
func Uint64(name string) uint64 { return uint64(bigInt(name)) }
func Bool(name string) bool {
	v, _ := raw(name)
	return v == "true"
}

func IsSymbolic() bool { return false }

// And/Or/Implies evaluate both operands (no short-circuit branch in the SSA of the harness).
func And(a, b bool) bool     { return a && b }
func Or(a, b bool) bool      { return a || b }
func Implies(a, b bool) bool { return !a || b }

// Concrete: under the engine the path forks over the feasible values of x.
func Concrete(x int) int { return x }
func Thorough() bool   { load(); return rf.Tier == "thorough" }

func Assume(c bool) {
	if !c {
		panic(AssumeFailed{})
	}
}

func Assert(c bool, label string) {
	if !c {
		Failures = append(Failures, label)
		fmt.Printf("VSYM-ASSERT-FAILED %s\n", label)
	}
}

func Near(a, b, abs, rel float64) bool {
	if math.IsNaN(a) || math.IsNaN(b) {
		return false
	}
	if a == b {
		return true
	}
	return math.Abs(a-b) <= abs+rel*math.Max(math.Abs(a), math.Abs(b))
}

func AssertNear(a, b, abs, rel float64, label string) { Assert(Near(a, b, abs, rel), label) }

// AssertAgree: two runs agree: like AssertNear, but natively two NaNs (or two equal infinities)
// at the same place also agree - for comparisons of one computation with itself under degenerate
// parameters (0/0), where "both are not-a-number" is agreement, not a difference.
func AssertAgree(a, b, abs, rel float64, label string) {
	if (math.IsNaN(a) && math.IsNaN(b)) || a == b {
		return
	}
	Assert(Near(a, b, abs, rel), label)
}

// Hunt: like Assert, but under the engine only a counterexample counts (bug hunting).
func Hunt(c bool, label string) { Assert(c, label) }

// HuntNear: like AssertNear, but under the engine only a counterexample counts (bug hunting).
func HuntNear(a, b, abs, rel float64, label string) { Assert(Near(a, b, abs, rel), label) }

func AssertLe(a, b, abs, rel float64, label string) {
	ok := !math.IsNaN(a) && !math.IsNaN(b) && a <= b+abs+rel*math.Max(math.Abs(a), math.Abs(b))
	Assert(ok, label)
}

func Reach(label string) {}
func Note(s string)      {}

func Known(id string) bool {
	load()
	for _, k := range rf.Known {
		if k == id {
			return true
		}
	}
	return false
}

func Observe(name string, v interface{}) { Observed[name] = fmt.Sprint(v) }

func dataPtr(s interface{}) (uintptr, int, uintptr) {
	rv := reflect.ValueOf(s)
	if rv.Kind() != reflect.Slice || rv.Len() == 0 && rv.Cap() == 0 {
		return 0, 0, 0
	}
	return rv.Pointer(), rv.Cap(), rv.Type().Elem().Size()
}

// SameStart: both slices start at the same address.
func SameStart(a, b interface{}) bool {
	pa, _, _ := dataPtr(a)
	pb, _, _ := dataPtr(b)
	return pa != 0 && pa == pb
}

// SameBacking: slice a starts inside the allocation reachable from b (or vice versa).
func SameBacking(a, b interface{}) bool { return OffsetIn(a, b) >= 0 || OffsetIn(b, a) >= 0 }

// OffsetIn: element offset of a's first element relative to b's first element when a starts
// inside b's capacity window; -1 otherwise.
func OffsetIn(a, b interface{}) int {
	pa, _, ea := dataPtr(a)
	pb, cb, eb := dataPtr(b)
	if pa == 0 || pb == 0 || ea != eb {
		return -1
	}
	if pa < pb || pa >= pb+uintptr(cb)*eb {
		return -1
	}
	return int((pa - pb) / ea)
}

const redzone = 64

func cbuf(name string, n int, esz int, fill func(i int, p unsafe.Pointer)) unsafe.Pointer {
	b := make([]byte, n*esz+2*redzone)
	for i := range b {
		b[i] = 0xA5
	}
	cbufs = append(cbufs, b)
	base := unsafe.Pointer(&b[redzone])
	for i := 0; i < n; i++ {
		fill(i, unsafe.Pointer(uintptr(base)+uintptr(i*esz)))
	}
	return base
}

// CheckRedZones reports whether any ghost C buffer was written outside its bounds.
func CheckRedZones() bool {
	for _, b := range cbufs {
		for i := 0; i < redzone; i++ {
			if b[i] != 0xA5 || b[len(b)-1-i] != 0xA5 {
				return false
			}
		}
	}
	return true
}

func CBufFloat64(name string, n int) unsafe.Pointer {
	return cbuf(name, n, 8, func(i int, p unsafe.Pointer) { *(*float64)(p) = Float64(fmt.Sprintf("%s[%d]", name, i)) })
}
func CBufFloat32(name string, n int) unsafe.Pointer {
	return cbuf(name, n, 4, func(i int, p unsafe.Pointer) { *(*float32)(p) = Float32(fmt.Sprintf("%s[%d]", name, i)) })
}
func CBufInt32(name string, n int) unsafe.Pointer {
	return cbuf(name, n, 4, func(i int, p unsafe.Pointer) { *(*int32)(p) = Int32(fmt.Sprintf("%s[%d]", name, i)) })
}
func CBufUint32(name string, n int) unsafe.Pointer {
	return cbuf(name, n, 4, func(i int, p unsafe.Pointer) { *(*uint32)(p) = Uint32(fmt.Sprintf("%s[%d]", name, i)) })
}
func CBufInt64(name string, n int) unsafe.Pointer {
	return cbuf(name, n, 8, func(i int, p unsafe.Pointer) { *(*int64)(p) = Int64(fmt.Sprintf("%s[%d]", name, i)) })
}
func CBufUint64(name string, n int) unsafe.Pointer {
	return cbuf(name, n, 8, func(i int, p unsafe.Pointer) { *(*uint64)(p) = Uint64(fmt.Sprintf("%s[%d]", name, i)) })
}

// CBufInt / CBufUint: the C element type genny maps Go int/uint to is the 32-bit C.int/C.uint;
// the buffer therefore has 4-byte elements and values in the 32-bit range.
func CBufInt(name string, n int) unsafe.Pointer {
	return cbuf(name, n, 4, func(i int, p unsafe.Pointer) { *(*int32)(p) = Int32(fmt.Sprintf("%s[%d]", name, i)) })
}
func CBufUint(name string, n int) unsafe.Pointer {
	return cbuf(name, n, 4, func(i int, p unsafe.Pointer) { *(*uint32)(p) = Uint32(fmt.Sprintf("%s[%d]", name, i)) })
}

// UF1..3: uninterpreted functions.  In a replay the function is the piecewise-linear
// interpolant (nearest recorded point for several arguments) of the call table that the solver's
// model assigned; without a replay file it is a fixed arbitrary mixing function.
func UF1(name string, a float64) float64       { return ufLookup(name, a) }
func UFMono1(name string, a float64) float64   { return ufLookup(name, a) }
func UF2(name string, a, b float64) float64    { return ufLookup(name, a, b) }
func UF3(name string, a, b, c float64) float64 { return ufLookup(name, a, b, c) }

type ufPoint struct {
	args []float64
	res  float64
}

var ufTables map[string][]ufPoint

func parseF(v string) float64 {
	switch v {
	case "NaN":
		return math.NaN()
	case "+Inf":
		return math.Inf(1)
	case "-Inf":
		return math.Inf(-1)
	}
	f, _ := strconv.ParseFloat(v, 64)
	return f
}

func ufLoad() {
	if ufTables != nil {
		return
	}
	load()
	ufTables = map[string][]ufPoint{}
	tmp := map[string]map[int]*ufPoint{}
	for k, v := range rf.Symbols {
		if !strings.HasPrefix(k, "uf:") {
			continue
		}
		parts := strings.Split(k, ":")
		if len(parts) != 4 {
			continue
		}
		name := parts[1]
		idx, _ := strconv.Atoi(parts[2])
		if tmp[name] == nil {
			tmp[name] = map[int]*ufPoint{}
		}
		pt := tmp[name][idx]
		if pt == nil {
			pt = &ufPoint{}
			tmp[name][idx] = pt
		}
		if parts[3] == "res" {
			pt.res = parseF(v)
		} else {
			ai, _ := strconv.Atoi(strings.TrimPrefix(parts[3], "arg"))
			for len(pt.args) <= ai {
				pt.args = append(pt.args, 0)
			}
			pt.args[ai] = parseF(v)
		}
	}
	for name, m := range tmp {
		for _, pt := range m {
			ufTables[name] = append(ufTables[name], *pt)
		}
	}
}

func ufLookup(name string, xs ...float64) float64 {
	ufLoad()
	tab := ufTables[name]
	if len(tab) == 0 {
		return mix(name, xs...)
	}
	if len(xs) == 1 {
		x := xs[0]
		// piecewise-linear interpolation through the recorded points
		var lo, hi *ufPoint
		for i := range tab {
			p := &tab[i]
			if len(p.args) != 1 {
				continue
			}
			if p.args[0] == x {
				return p.res
			}
			if p.args[0] < x && (lo == nil || p.args[0] > lo.args[0]) {
				lo = p
			}
			if p.args[0] > x && (hi == nil || p.args[0] < hi.args[0]) {
				hi = p
			}
		}
		switch {
		case lo != nil && hi != nil:
			return lo.res + (hi.res-lo.res)*(x-lo.args[0])/(hi.args[0]-lo.args[0])
		case lo != nil:
			return lo.res
		case hi != nil:
			return hi.res
		}
		return 0
	}
	best, bd := 0.0, math.Inf(1)
	for _, p := range tab {
		d := 0.0
		for i := range xs {
			if i < len(p.args) {
				d += math.Abs(xs[i] - p.args[i])
			}
		}
		if d < bd {
			bd, best = d, p.res
		}
	}
	return best
}

func mix(name string, xs ...float64) float64 {
	h := 1.0
	for _, c := range name {
		h = h*31 + float64(c)
	}
	h = math.Mod(h, 97)
	for i, x := range xs {
		h = h*1.000001 + x*float64(3+2*i) + 1
	}
	return h
}

func Summarise_(fn string) {}
// AssertNoRaces: under the engine, the recorded memory footprints of distinct goroutine
// instances must not conflict.  Natively the replay binary is built with -race, so a real race
// makes the run fail by itself.
func AssertNoRaces(label string) {}

// AssertNoRacesHB: under the engine, every pair of conflicting logged accesses by different
// goroutine instances must be ordered by happens-before (go, send->receive, unlock->lock).
// Natively a no-op: the replay runs under the Go race detector.
func AssertNoRacesHB(label string) {}
func GlobalWrites() int          { return 0 }
func JoinBalance() int           { return 0 }
// Stash/Fetch/StashCount talk to the engine's environment stubs; natively they do nothing (the
// harness uses the real environment instead, see IsSymbolic).
func Stash(key string, ptr interface{})      {}
func Fetch(key string, ptr interface{}) bool { return false }
func StashCount(key string) int              { return 0 }
func LogStart()              {}
func LogStop()               {}
func Summarise(fn string)    {}
func Goroutines() int        { return 0 }
