#!/usr/bin/env python3
# Regenerates MANIFEST.json from the table below (kept in one place so it stays valid).
import json
TECH = "SMT-based bounded symbolic execution of go/ssa (z3 4.8.12 / 5.1.0), counterexamples replayed natively"
claimed = {
 "C10": dict(level="model_checking",
   text="Exact-real (R-model) one-step induction from an arbitrary state inside the stated store invariant, plus two-step direct runs from the zero state, for RunoffCoefficient, Simhyd and Surm: outputs >= 0, runoff = quick + base, stores within [0, capacity] (so the invariant is inductive and covers series of any length), per-step budget runoff + Phi(state') <= rain + Phi(state) whose telescoped sum is the cumulative claim. exp() by contract.",
   ref="§4 C10", note="float64 modelled as exact reals (rounding/overflow/NaN outside the claim); parameters: fractions in [0,1], capacities > 0; GR4J and Sacramento are NOT yet covered by this check (see DESIGN §5)"),
 "C11": dict(level="model_checking",
   text="Muskingum: two-step recurrence with independently transcribed weights on total (upstream+lateral) inflow, continuity of S=K(XI+(1-X)O), steady state fixed point, for all K,X,dt in the stable region. Lag: every lag and series length in [0,4]^2 ([0,7]^2 thorough) with symbolic values. StorageRouting: one timestep (the real calcOutflow/runRouting) from an arbitrary previous storage for bias 0 and m in {1, 1/2, symbolic in (0,1]}: every exit path: outflow,storage >= 0, water balance within 2*massBalanceLimit, S = kQ+dead for uncapped outflow; fn.FindRoot replaced by its C18 contract.",
   ref="§4 C11", note="R-model; FindRoot convergence within the iteration budget is assumed at its call site; non-zero inflow bias not covered; known finding C11-flux-capped-exit"),
 "C12": dict(level="model_checking",
   text="One timestep from an arbitrary non-negative stored mass through every branch of the eight listed models (flush, flood-plain deposition on/off, deposition/remobilisation/neither, decay on/off, bank-full 0 / >0): mass in + stored = mass out + deposited/trapped/decayed/floodplain + stored', loads and stores >= 0, remobilisation <= channel store; loss only below the minimum volume.",
   ref="§4 C12", note="R-model; pow() terms by sign/monotonicity contract; reservoir trapping assumes working volume > 0; fine-sediment channel store assumed <= its capacity (the model maintains this)"),
 "C16": dict(level="model_checking",
   text="All partition, pass-through, scaling, unit-conversion and generation kernels (19 harnesses, 2 timesteps, all values symbolic reals): outputs sum to input, linear maps with the documented unit factors (1e-3 mm->m, 1e-3 mg/L->kg/m3, 0.01 %->proportion), totals = sum of parts, delivered = generated*ratio, zero driver => zero load, non-negative drivers => non-negative loads; rating-curve partition with 2-4 point tables.",
   ref="§4 C16", note="R-model (exact reals); rating partition inside the table only (outside it the model panics by design); cos/pow by contract"),
 "C18": dict(level="model_checking",
   text="FindRoot: 1 and 2 (3 thorough) iterations from an arbitrary bracket with an uninterpreted (Ackermannised) monotone or merely sign-changing f, optional Newton trial: every evaluation point inside the bracket, result inside, returned value = f(result), value no worse than the better end or below tolerance. Piecewise: 2-5 strictly increasing symbolic knots: exact at knots, linear interpolant between neighbours, error exactly outside the table, NaN query (IEEE model) is an error.",
   ref="§4 C18", note="R-model for FindRoot/Piecewise, FP-model for the NaN case; convergence within the iteration budget is not decided; a bracket whose two ends are both exact roots is excluded; known finding C18-findroot-early-return-under-tolerance"),
 "C01": dict(level="model_checking",
   text="(1) Inductive step of slicing for ranks 1-3 in wrapping 64-bit arithmetic with NO bound on extents, origins, steps or positions: the child of an arbitrary member of the view family is again a member, shares storage, and its element i is the parent's element loc+i*step; hence chains of any depth. (2) Direct runs through the public API on fresh arrays with extents <= 3 (4 thorough), steps <= 3: depth-2/3 chains, Get/Set visibility both ways, exact footprints of Set, Apply, ApplySlice, CopyFrom on every storage cell. All 8 Go element types (instantiated from the genny type list of the current tree).",
   ref="§4 C01", note="(2) uses mathematical ints with all quantities bounded by the extents (no overflow possible); rank <= 3; C-backed arrays are covered under C03; shape extents are enumerated by forking, positions/steps/values are symbolic"),
 "C02": dict(level="model_checking",
   text="For every view of rank <= 3 with extents <= 3 (4 thorough) and symbolic position/step <= 3: Contiguous() is equivalent to storage adjacency of successive row-major elements; Unroll equals the row-major gather and aliases storage iff contiguous; Reshape/ReshapeFast fail exactly on size mismatch / non-contiguity, preserve row-major order and alias iff contiguous; Maximum/Minimum; ApplyFunc1/Scale/AddTo element-wise with exact frames for all contiguity combinations. Integer helpers (Product, Multiply, dotProduct, Offsets, decrement, Maximum, Argmax) against their definitions for ALL 64-bit vectors of length 1-4; IDivMod/Increment against mixed-radix arithmetic for radices <= 6.",
   ref="§4 C02", note="ints=math for the bounded direct harnesses, bit-vectors for the helper definitions; element values symbolic (reals for float types: rounding of v*scale / v+c outside the claim)"),
 "C19": dict(level="model_checking",
   text="One inductive step (plus a 4-step direct run in the thorough tier) of the real dateGenerator from an arbitrary valid start date with year in [1,1e9], all values symbolic, compared by the solver with an independent civil-day-number reference; unsat for every obligation means the property holds for every start date in the bound and, by induction over the emitted date, for every run length.",
   ref="§4 C19", note="ints=math (no wrap-around; year bounded by 1e9 so no overflow), float64<->int conversions exact; go/ssa lowering, z3"),
}
not_applicable = {
}
pending = "check not built yet in this session; see DESIGN.md §9 for the build order"
allp = [json.loads(l)["id"] for l in open("properties.jsonl")]
checks=[]
for pid in allp:
    if pid in claimed:
        c=claimed[pid]
        checks.append({"property_id":pid,"quick_cmd":f"./vcheck {pid} quick","thorough_cmd":f"./vcheck {pid} thorough",
          "evidence_file":f"/verif/evidence/{pid}.json","replay_cmd_template":"VSYM_REPLAY={path} ./replay.sh {path}",
          "engine":"gosmt","level_claimed":{"category":c["level"],"text":c["text"],"design_ref":c["ref"]},
          "level_note":c["note"],"technique":TECH})
na=[{"property_id":p,"reason":not_applicable.get(p,pending)} for p in allp if p not in claimed]
m={"version":1,"setup_cmd":"./setup.sh",
 "hooks":{"guard":"verif","enable":"none needed: harnesses are injected with go/packages overlays and go test -overlay; /repo is not modified","baseline_off_cmd":"cd /repo && go test -mod=mod -json -vet=off -count=1 -timeout 25m ./...","source_commits":[],"add_only":True},
 "engines":[{"name":"gosmt","path":"/verif/engine","serves_properties":sorted(claimed),"kind_free_text":"purpose-built symbolic executor for go/ssa emitting SMT-LIB2; arm merging at post-dominators, forking by re-execution, z3 portfolio, native replay"}],
 "checks":checks,"not_applicable":na,
 "notes":"All checks rebuild their encoding from /repo's working tree on every run. Exit 0 = no reproduced violation outside known_findings.json; INCONCLUSIVE lines are counted in evidence and never as discharged."}
json.dump(m,open("MANIFEST.json","w"),indent=1)
print("claimed",sorted(claimed),"na",len(na))
