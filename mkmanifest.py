#!/usr/bin/env python3
# Regenerates MANIFEST.json from the table below (kept in one place so it stays valid).
import json
TECH = "SMT-based bounded symbolic execution of go/ssa (z3 4.8.12 / 5.1.0), counterexamples replayed natively"
claimed = {
 "C01": dict(level="model_checking",
   text="(1) Inductive step of slicing for ranks 1-3 in wrapping 64-bit arithmetic with NO bound on extents, origins, steps or positions: the child of an arbitrary member of the view family is again a member, shares storage, and its element i is the parent's element loc+i*step; hence chains of any depth. (2) Direct runs through the public API on fresh arrays with extents <= 3 (4 thorough), steps <= 3: depth-2/3 chains, Get/Set visibility both ways, exact footprints of Set, Apply, ApplySlice, CopyFrom on every storage cell. All 8 Go element types (instantiated from the genny type list of the current tree).",
   ref="§4 C01", note="(2) uses mathematical ints with all quantities bounded by the extents (no overflow possible); rank <= 3; C-backed arrays are covered under C03; shape extents are enumerated by forking, positions/steps/values are symbolic"),
 "C02": dict(level="model_checking",
   text="For every view of rank <= 3 with extents <= 3 (4 thorough) and symbolic position/step <= 3: Contiguous() is equivalent to storage adjacency of successive row-major elements; Unroll equals the row-major gather and aliases storage iff contiguous; Reshape/ReshapeFast fail exactly on size mismatch / non-contiguity, preserve row-major order and alias iff contiguous; Maximum/Minimum; ApplyFunc1/Scale/AddTo element-wise with exact frames for all contiguity combinations. Integer helpers (Product, Multiply, dotProduct, Offsets, decrement, Maximum, Argmax) against their definitions for ALL 64-bit vectors of length 1-4; IDivMod/Increment against mixed-radix arithmetic for radices <= 6.",
   ref="§4 C02", note="ints=math for the bounded direct harnesses, bit-vectors for the helper definitions; element values symbolic (reals for float types: rounding of v*scale / v+c outside the claim)"),
 "C19": dict(level="model_checking",
   text="One inductive step (plus a 4-step direct run in the thorough tier) of the real dateGenerator from an arbitrary valid start date with year in [1,1e9], all values symbolic, compared by the solver with an independent civil-day-number reference; unsat for every obligation means the property holds for every start date in the bound and, by induction over the emitted date, for every run length.",
   ref="§4 C19", note="ints=math (no wrap-around; year bounded by 1e9 so no overflow), float64<->int conversions exact; go/ssa lowering, z3"),
}
not_applicable = {
}
pending = "check not built yet in this session; see DESIGN.md §9 for the build order"
allp = [json.loads(l)["id"] for l in open("properties.jsonl")]
checks=[]
for pid in allp:
    if pid in claimed:
        c=claimed[pid]
        checks.append({"property_id":pid,"quick_cmd":f"./vcheck {pid} quick","thorough_cmd":f"./vcheck {pid} thorough",
          "evidence_file":f"/verif/evidence/{pid}.json","replay_cmd_template":"VSYM_REPLAY={path} ./replay.sh {path}",
          "engine":"gosmt","level_claimed":{"category":c["level"],"text":c["text"],"design_ref":c["ref"]},
          "level_note":c["note"],"technique":TECH})
na=[{"property_id":p,"reason":not_applicable.get(p,pending)} for p in allp if p not in claimed]
m={"version":1,"setup_cmd":"./setup.sh",
 "hooks":{"guard":"verif","enable":"none needed: harnesses are injected with go/packages overlays and go test -overlay; /repo is not modified","baseline_off_cmd":"cd /repo && go test -mod=mod -json -vet=off -count=1 -timeout 25m ./...","source_commits":[],"add_only":True},
 "engines":[{"name":"gosmt","path":"/verif/engine","serves_properties":sorted(claimed),"kind_free_text":"purpose-built symbolic executor for go/ssa emitting SMT-LIB2; arm merging at post-dominators, forking by re-execution, z3 portfolio, native replay"}],
 "checks":checks,"not_applicable":na,
 "notes":"All checks rebuild their encoding from /repo's working tree on every run. Exit 0 = no reproduced violation outside known_findings.json; INCONCLUSIVE lines are counted in evidence and never as discharged."}
json.dump(m,open("MANIFEST.json","w"),indent=1)
print("claimed",sorted(claimed),"na",len(na))
