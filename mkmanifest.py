#!/usr/bin/env python3
# Regenerates MANIFEST.json from the table below (kept in one place so it stays valid).
import json
TECH = "SMT-based bounded symbolic execution of go/ssa (z3 4.8.12 / 5.1.0), counterexamples replayed natively"
claimed = {
 "C19": dict(level="model_checking",
   text="One inductive step (plus a 4-step direct run in the thorough tier) of the real dateGenerator from an arbitrary valid start date with year in [1,1e9], all values symbolic, compared by the solver with an independent civil-day-number reference; unsat for every obligation means the property holds for every start date in the bound and, by induction over the emitted date, for every run length.",
   ref="§4 C19", note="ints=math (no wrap-around; year bounded by 1e9 so no overflow), float64<->int conversions exact; go/ssa lowering, z3"),
}
not_applicable = {
}
pending = "check not built yet in this session; see DESIGN.md §9 for the build order"
allp = [json.loads(l)["id"] for l in open("properties.jsonl")]
checks=[]
for pid in allp:
    if pid in claimed:
        c=claimed[pid]
        checks.append({"property_id":pid,"quick_cmd":f"./vcheck {pid} quick","thorough_cmd":f"./vcheck {pid} thorough",
          "evidence_file":f"/verif/evidence/{pid}.json","replay_cmd_template":"VSYM_REPLAY={path} ./replay.sh {path}",
          "engine":"gosmt","level_claimed":{"category":c["level"],"text":c["text"],"design_ref":c["ref"]},
          "level_note":c["note"],"technique":TECH})
na=[{"property_id":p,"reason":not_applicable.get(p,pending)} for p in allp if p not in claimed]
m={"version":1,"setup_cmd":"./setup.sh",
 "hooks":{"guard":"verif","enable":"none needed: harnesses are injected with go/packages overlays and go test -overlay; /repo is not modified","baseline_off_cmd":"cd /repo && go test -mod=mod -json -vet=off -count=1 -timeout 25m ./...","source_commits":[],"add_only":True},
 "engines":[{"name":"gosmt","path":"/verif/engine","serves_properties":sorted(claimed),"kind_free_text":"purpose-built symbolic executor for go/ssa emitting SMT-LIB2; arm merging at post-dominators, forking by re-execution, z3 portfolio, native replay"}],
 "checks":checks,"not_applicable":na,
 "notes":"All checks rebuild their encoding from /repo's working tree on every run. Exit 0 = no reproduced violation outside known_findings.json; INCONCLUSIVE lines are counted in evidence and never as discharged."}
json.dump(m,open("MANIFEST.json","w"),indent=1)
print("claimed",sorted(claimed),"na",len(na))
