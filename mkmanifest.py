#!/usr/bin/env python3
# Regenerates MANIFEST.json from the table below (kept in one place so it stays valid).
import json
TECH = "SMT-based bounded symbolic execution of go/ssa (z3 4.8.12 / 5.1.0), counterexamples replayed natively"
claimed = {
 "C03": dict(level="model_checking",
   text="Lock-step bisimulation of a Go-backed and a C-backed array (ghost C buffer of exactly Product(dims) elements: every out-of-buffer access is a failed obligation; natively red zones) under stepped Slice, Get/Set, Unroll, Contiguous, Maximum/Minimum, Apply, ApplySlice and CopyFrom across back-ends, Reshape/ReshapeFast incl. aliasing behaviour; rank 2, extents <= 3, symbolic positions/steps/values, all 8 element types. Plus every catalogued wrapper (38 of 41 with their real kernel) run on C-backed input/parameter/state/output buffers vs Go-backed arrays.",
   ref="§4 C03", note="the cgo calling convention of RunSingleModel itself is not encoded (FFI); Go int/uint map to 32-bit C.int/C.uint: element values are taken in the 32-bit range; Sacramento, Storage, ClimateVariables wrappers not exercised with their kernels"),
 "C04": dict(level="model_checking",
   text="For every catalogued model (names read from the generated wrappers of the current tree; 38 of 41 with their real kernel): vectorised Run of 2-4 cells with 2-3 parameter sets and 1-3 input blocks (equal, fewer, coprime, decoupled), 1-2 timesteps, exact-size and oversized caller-owned output arrays, all data symbolic: each cell's outputs and final states equal a fresh single-cell run on its own parameter column / state row / input block; inputs and parameters bit-identical afterwards; no cell outside the run written. Table-valued parameters with per-cell lengths (RatingCurvePartition).",
   ref="§4 C04", note="kernel panics are assumed away (wrapper, array library and sim panics are obligations); GR4J x4 and Lag lag fixed per parameter set; Sacramento, Storage, ClimateVariables kernels are outside the executor's reach and their wrappers are not exercised"),
 "C05": dict(level="model_checking",
   text="Two-thread reduction over recorded footprints: every memory access of the goroutine-per-cell Run of each catalogued model (3 cells; 4 thorough) is logged per goroutine instance; obligation: no cell of an object a goroutine did not allocate is written by one instance and accessed by another or by the spawner before the join - which covers every interleaving; one goroutine per cell and join balance. Counterexamples are replayed under the Go race detector.",
   ref="§4 C05", note="ow-sim's goroutine-per-model generation and the asynchronous writer are NOT covered (see DESIGN §5); channel operations and map reads are not logged; 38 of 41 wrappers"),
 "C06": dict(level="model_checking",
   text="Kernel level: T=3 in one call vs every split (1+2, 2+1, 1+1+1) carrying returned states for Simhyd, Surm, Muskingum, Lag (lag 0-3), and T=2 vs 1+1 for GR4J (two x4 cases), lumped transport, constituent decay, coarse sediment: outputs and final states equal. State packing: extract(pack(s)) = s for GR4J (all UH lengths) and Lag. StorageRouting: a continued segment is exactly the step function applied to the carried storage/outflow.",
   ref="§4 C06", note="R-model; Sacramento's unit-hydrograph buffer (not part of its state vector) and the Storage model are not covered; StorageRouting index-flow guess affects results within the solver tolerance only (C11)"),
 "C08": dict(level="model_checking",
   text="Selection arithmetic for ALL extents/start/stop/step up to 1e6 (count = number of indices start+k*step below min(stop,extent), hyperslab denotes exactly that set). Against an in-memory model of the HDF5 library (hyperslab semantics per the HDF5 definition): Write/Load round trip for contiguous and stepped sources, Load with [start,stop,step] selections equals the in-memory slice, WriteSlice changes exactly the block, Create on an existing dataset leaves contents / refuses another shape; 8 element types, rank <= 2, extents <= 3. Lock discipline: every call from the repository into the library happens with the package lock held, writes with the write lock (engine-observed at the library boundary on every executed path).",
   ref="§4 C08", note="libhdf5 itself is absent from the image and replaced by /verif/stubs/hdf5 (stated environment model); real files, concurrency between callers and text datasets not covered"),
 "C13": dict(level="model_checking",
   text="Storage model, one daily timestep: (a) water balance with the reported rainfall/evaporation volumes proved with table look-ups abstracted to uninterpreted functions (hence for any table), sub-stepping loops cut after 2 iterations; (b) on three fixed table sets (2-point, 3-point [thorough], small pool behind a large spillway) with symbolic inflow/demand/rain/PET/initial volume: volume >= 0, outflow >= 0, reported volumes >= 0, final level/area = table(final volume), release bounds; balance and the model's own panics as 30 s counterexample searches.",
   ref="§4 C13", note="R-model; steps needing more than one (2 for (a)) sub-step refinement are outside the claim; tables are fixed in (b); the known crash when net evaporation exceeds the remaining volume on a table with area > 0 at empty is outside the bounded paths (DESIGN §6)"),
 "C14": dict(level="model_checking",
   text="For every catalogued model (38 of 41 with real kernels), 2 cells x 3 timesteps, all data symbolic: same object run again, fresh object, and same object after another model ran give identical outputs and final states; no package-level variable is written during Run (engine-observed); for every k, replacing the inputs after step k by fresh symbols or truncating the series leaves outputs up to k unchanged.",
   ref="§4 C14", note="bit-identity is term identity in the R-model (rounding outside); heavy kernels skipped as in C04"),
 "C15": dict(level="model_checking",
   text="One day of the real gr4j from an arbitrary common state equals an independent transcription of Perrin et al. (2003) (S-curves with exponent 5/2, ordinates by differencing, production/percolation, 90/10 split, exchange, routing store, direct branch) for x4 in {0.5, 0.75, 1, 1.5, 2, 2.5, 3.5, 4} (+3, 1.2 thorough); x1, x2, x3, both stores, both UH buffers, rain and PET symbolic.",
   ref="§4 C15", note="x4 is fixed per harness (it sets array lengths); non-linear sub-expressions of the reference are written in the model's algebraic form, pow of constants folded to the float64 library value; undecided obligations are additionally probed natively"),
 "C17": dict(level="model_checking",
   text="The real RunSingleModelJSON with the JSON codec replaced by an environment stub (request struct in, response struct out; natively the real codec): any subset/order/superset of parameters and inputs, series length 1-2: exactly one document, outputs/states equal a direct run with defaults and zeros, one log entry per default/missing input; malformed request, unknown/empty model, no inputs, unequal lengths: one document, no crash. JsonSafeValue in the IEEE model (NaN/+Inf/-Inf strings, finite unchanged), overflowed states in both output modes, JsonSafeArray nesting for contiguous and stepped views of rank 1-3.",
   ref="§4 C17", note="encoding/json itself (arbitrary byte strings) is not encoded; the model is a small one registered by the harness because package sim cannot import the model packages"),
 "C10": dict(level="model_checking",
   text="Exact-real (R-model) one-step induction from an arbitrary state inside the stated store invariant, plus two-step direct runs from the zero state, for RunoffCoefficient, Simhyd and Surm (and a bounded Sacramento step): outputs >= 0, runoff = quick + base, stores within [0, capacity] (so the invariant is inductive and covers series of any length), per-step budget runoff + Phi(state') <= rain + Phi(state) whose telescoped sum is the cumulative claim. exp() by contract.",
   ref="§4 C10", note="float64 modelled as exact reals (rounding/overflow/NaN outside the claim); parameters: fractions in [0,1], capacities > 0; Sacramento: one bounded step (single-increment storms) with runoff/baseflow >= 0 and component sum proved, baseflow <= runoff and surface >= 0 as counterexample searches; GR4J bounds/closure only in the thorough tier and largely undecided by the solver"),
 "C11": dict(level="model_checking",
   text="Muskingum: two-step recurrence with independently transcribed weights on total (upstream+lateral) inflow, continuity of S=K(XI+(1-X)O), steady state fixed point, for all K,X,dt in the stable region. Lag: every lag and series length in [0,4]^2 ([0,7]^2 thorough) with symbolic values. StorageRouting: one timestep (the real calcOutflow/runRouting) from an arbitrary previous storage for bias 0 and m in {1, 1/2, symbolic in (0,1]}: every exit path: outflow,storage >= 0, water balance within 2*massBalanceLimit, S = kQ+dead for uncapped outflow; fn.FindRoot replaced by its C18 contract.",
   ref="§4 C11", note="R-model; FindRoot convergence within the iteration budget is assumed at its call site; non-zero inflow bias not covered; known finding C11-flux-capped-exit"),
 "C12": dict(level="model_checking",
   text="One timestep from an arbitrary non-negative stored mass through every branch of the eight listed models (flush, flood-plain deposition on/off, deposition/remobilisation/neither, decay on/off, bank-full 0 / >0): mass in + stored = mass out + deposited/trapped/decayed/floodplain + stored', loads and stores >= 0, remobilisation <= channel store; loss only below the minimum volume.",
   ref="§4 C12", note="R-model; pow() terms by sign/monotonicity contract; reservoir trapping assumes working volume > 0; fine-sediment channel store assumed <= its capacity (the model maintains this)"),
 "C16": dict(level="model_checking",
   text="All partition, pass-through, scaling, unit-conversion and generation kernels (19 harnesses, 2 timesteps, all values symbolic reals): outputs sum to input, linear maps with the documented unit factors (1e-3 mm->m, 1e-3 mg/L->kg/m3, 0.01 %->proportion), totals = sum of parts, delivered = generated*ratio, zero driver => zero load, non-negative drivers => non-negative loads; rating-curve partition with 2-4 point tables.",
   ref="§4 C16", note="R-model (exact reals); rating partition inside the table only (outside it the model panics by design); cos/pow by contract"),
 "C18": dict(level="model_checking",
   text="FindRoot: 1 and 2 (3 thorough) iterations from an arbitrary bracket with an uninterpreted (Ackermannised) monotone or merely sign-changing f, optional Newton trial: every evaluation point inside the bracket, result inside, returned value = f(result), value no worse than the better end or below tolerance. Piecewise: 2-5 strictly increasing symbolic knots: exact at knots, linear interpolant between neighbours, error exactly outside the table, NaN query (IEEE model) is an error.",
   ref="§4 C18", note="R-model for FindRoot/Piecewise, FP-model for the NaN case; convergence within the iteration budget is not decided; a bracket whose two ends are both exact roots is excluded; known finding C18-findroot-early-return-under-tolerance"),
 "C01": dict(level="model_checking",
   text="(1) Inductive step of slicing for ranks 1-3 in wrapping 64-bit arithmetic with NO bound on extents, origins, steps or positions: the child of an arbitrary member of the view family is again a member, shares storage, and its element i is the parent's element loc+i*step; hence chains of any depth. (2) Direct runs through the public API on fresh arrays with extents <= 3 (4 thorough), steps <= 3: depth-2/3 chains, Get/Set visibility both ways, exact footprints of Set, Apply, ApplySlice, CopyFrom on every storage cell. All 8 Go element types (instantiated from the genny type list of the current tree).",
   ref="§4 C01", note="(2) uses mathematical ints with all quantities bounded by the extents (no overflow possible); rank <= 3; C-backed arrays are covered under C03; shape extents are enumerated by forking, positions/steps/values are symbolic"),
 "C02": dict(level="model_checking",
   text="For every view of rank <= 3 with extents <= 3 (4 thorough) and symbolic position/step <= 3: Contiguous() is equivalent to storage adjacency of successive row-major elements; Unroll equals the row-major gather and aliases storage iff contiguous; Reshape/ReshapeFast fail exactly on size mismatch / non-contiguity, preserve row-major order and alias iff contiguous; Maximum/Minimum; ApplyFunc1/Scale/AddTo element-wise with exact frames for all contiguity combinations. Integer helpers (Product, Multiply, dotProduct, Offsets, decrement, Maximum, Argmax) against their definitions for ALL 64-bit vectors of length 1-4; IDivMod/Increment against mixed-radix arithmetic for radices <= 6.",
   ref="§4 C02", note="ints=math for the bounded direct harnesses, bit-vectors for the helper definitions; element values symbolic (reals for float types: rounding of v*scale / v+c outside the claim)"),
 "C19": dict(level="model_checking",
   text="One inductive step (plus a 4-step direct run in the thorough tier) of the real dateGenerator from an arbitrary valid start date with year in [1,1e9], all values symbolic, compared by the solver with an independent civil-day-number reference; unsat for every obligation means the property holds for every start date in the bound and, by induction over the emitted date, for every run length.",
   ref="§4 C19", note="ints=math (no wrap-around; year bounded by 1e9 so no overflow), float64<->int conversions exact; go/ssa lowering, z3"),
}
not_applicable = {
 "C07": "ow-sim's run_simulation (package main, flags, os/exec writer process, real-time sleeps, goroutine hand-off with the asynchronous writer) is not encoded; the pieces it is built from are covered under C04/C05 (wrappers), C08 (HDF5 references) and C02 (AddTo); see DESIGN §5",
 "C09": "byte-for-byte equality of generated files with generator output is a regenerate-and-diff over concrete files: there is no symbolic quantity for a solver to decide; see DESIGN §5",
 "C20": "the physical orderings depend on numeric values of log10/10^x/exp for which no solver in the image has a usable theory; the 40-step wet-bulb bisection over those contracts is beyond the executor's budget; see DESIGN §5",
}
pending = "check not built yet in this session; see DESIGN.md §9 for the build order"
allp = [json.loads(l)["id"] for l in open("properties.jsonl")]
checks=[]
for pid in allp:
    if pid in claimed:
        c=claimed[pid]
        checks.append({"property_id":pid,"quick_cmd":f"./vcheck {pid} quick","thorough_cmd":f"./vcheck {pid} thorough",
          "evidence_file":f"/verif/evidence/{pid}.json","replay_cmd_template":"VSYM_REPLAY={path} ./replay.sh {path}",
          "engine":"gosmt","level_claimed":{"category":c["level"],"text":c["text"],"design_ref":c["ref"]},
          "level_note":c["note"],"technique":TECH})
na=[{"property_id":p,"reason":not_applicable.get(p,pending)} for p in allp if p not in claimed]
m={"version":1,"setup_cmd":"./setup.sh",
 "hooks":{"guard":"verif","enable":"none needed: harnesses are injected with go/packages overlays and go test -overlay; /repo is not modified","baseline_off_cmd":"cd /repo && go test -mod=mod -json -vet=off -count=1 -timeout 25m ./...","source_commits":[],"add_only":True},
 "engines":[{"name":"gosmt","path":"/verif/engine","serves_properties":sorted(claimed),"kind_free_text":"purpose-built symbolic executor for go/ssa emitting SMT-LIB2; arm merging at post-dominators, forking by re-execution, z3 portfolio, native replay"}],
 "checks":checks,"not_applicable":na,
 "notes":"All checks rebuild their encoding from /repo's working tree on every run. Exit 0 = no reproduced violation outside known_findings.json; INCONCLUSIVE lines are counted in evidence and never as discharged."}
json.dump(m,open("MANIFEST.json","w"),indent=1)
print("claimed",sorted(claimed),"na",len(na))
